#!/bin/bash
# tools/seed2.sh CNN : confirm a round-2 seeded change and run the property's quick check against it
id=$1
python3 /verif/tools/verify_seed.py $id /tmp/seed2/$id /tmp/wt2/$id b | python3 -c 'import json,sys; m=json.load(sys.stdin); print({k:m[k] for k in ("suite_with_change","demo_with_change","demo_without_change","confirmed")})'
if [ -f /verif/seeded/${id}b/patch.diff ]; then
  /verif/bin/check $id quick --patch /verif/seeded/${id}b/patch.diff --tag seed2$id 2>&1 | grep -v "^WARNING\|KNOWN-FINDING" | cut -c1-330 | tail -6
fi
