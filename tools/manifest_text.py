"""Per-check wording for MANIFEST.json."""

ALL = ["C%02d" % i for i in range(1, 21)]

TEXT = {
    "C06": dict(
        level="Bounded-exhaustive model checking of the real sync path: every cell of the strategy x difference table (1536 cases over composite and decorator) is executed against the real controllers on the simulated API server and the multiset of child writes is compared with the table written from the statement.",
        note="Trusts the sim API server semantics and the controlled informer; data values limited to the alphabet (one owned field, one foreign field, status, system metadata).",
        technique="bounded-exhaustive enumeration of the full decision table on the real code (explicit-state, no sampling)",
    ),
    "C03": dict(
        level="Bounded-exhaustive model checking: every combination of object roles (owned, orphaned, foreign-owned, non-matching, other namespace, deleting, undeclared kind) in 2-3 slots, for namespaced and cluster parents, core/grouped and namespaced/cluster child kinds, is synced once by the real controller; the children/attachments JSON of the logged hook request is compared with a view computed independently from the cache.",
        note="Trusts the sim and the controlled informer; adoption/release succeed (fresh caches) - stale-cache adoption is C04's subject.",
        technique="bounded-exhaustive enumeration of cluster contents x configurations on the real code, independent reference view as oracle",
    ),
    "C16": dict(
        level="Bounded-exhaustive model checking of one decorator sync over the full product of target shapes x hook responses x finalizer modes x cache staleness; the stored target after the sync is compared with the target computed from the statement (only named label/annotation keys, status, own finalizer may change), plus zero-request, never-clobber-spec, decorated-iff-selected and bystander-attachment clauses.",
        note="Trusts the sim (incl. null pruning, status subresource semantics). Key/value alphabet of three keys and two values.",
        technique="bounded-exhaustive enumeration of inputs on the real code, independent reference model of the decorated target as oracle",
    ),
    "C14": dict(
        level="Bounded-exhaustive model checking of the event handlers: every watch-event shape on every object role is delivered synchronously through the controlled informer to the handlers installed by the real Start(), in every configuration; the recording queue is compared with the decision table written from the statement (required keys, forbidden keys, key round-trips through the controller's own key parser).",
        note="Trusts the controlled informer's fan-out (real sharedEventHandler is used). Related-object over-notification is allowed (statement is one-directional there).",
        technique="bounded-exhaustive enumeration of event shapes x roles x configurations on the real handlers (explicit-state, no sampling)",
    ),
    "C11": dict(
        level="Bounded-exhaustive model checking of the parent status path of one composite sync: all combinations of hook status shapes, divergence between cached and live parent, conflicts caused at every retry, injected errors and child failures; every status PUT is judged against the logged pre-state (endpoint, body equals live object outside status, target = hook status + generation sent to the hook, UID never differs), the stored parent is diffed before/after.",
        note="Only parents with a status subresource (metacontroller refuses others, see C20). Whether a child error survives a benign end of the status path is left to C12.",
        technique="bounded-exhaustive enumeration of inputs x environment deviations (caused conflicts, injected faults) on the real code, request-log oracle",
    ),
    "C13": dict(
        level="Bounded-exhaustive model checking over a response grammar: every single-node (thorough: every two-node) type replacement of a valid hook response, raw malformed bodies and non-200 statuses are fed through the real webhook executor into a real sync that has children to create and to delete; a panic anywhere (including goroutines spawned by the code, which abort the process - caught by the crash protocol) is a violation, and a rejected response must be followed by zero child writes.",
        note="The 'unbounded coverage-guided fuzzing' part of the quantifier is outside the model-checking family and is not claimed. Trusts the sim for API-level validation of accepted-but-odd children.",
        technique="bounded-exhaustive grammar enumeration (single and pairwise node replacements) executed on the real code",
    ),
    "C19": dict(
        level="Model checking of the hook transport: the complete status x header x body x mode x cache table on the real Call, and an exhaustive schedule enumeration (all interleavings of 2-3 concurrent calls sharing a cache key, at phase granularity, under every server-content-change pattern) with the oracle 'a successful 304 uses the body cached with exactly the ETag this call sent'.",
        note="No sockets: scripted HTTP client. Phase granularity is complete because each phase performs at most one cache operation.",
        technique="exhaustive schedule enumeration (cooperative scheduler over the real code) + bounded-exhaustive input table + all call sequences to depth 3/4 against a reference model of the ETag cache",
    ),
    "C15": dict(
        level="Bounded-exhaustive model checking of the customize path: every rule set of one or two rules from the selection alphabet is evaluated by the real manager inside real syncs; the related map of the logged sync and finalize requests is compared with an independent evaluation of the rules, plus error-not-silent-choice, at-most-one customize call per UID+generation, and wake-up agreement clauses.",
        note="Trusts sim + controlled informers. Over-notification (waking a parent for an object it does not list) is allowed by the statement.",
        technique="bounded-exhaustive enumeration of rule sets x cluster contents on the real code, independent rule evaluator as oracle",
    ),
    "C05": dict(
        level="Bounded-exhaustive model checking of the pure merge functions: complete cubes of JSON triples over finite universes (10^6 quick, 10^8 thorough) are pushed through the real Merge/ApplyUpdate and compared with a reference of the documented convention, plus idempotence (no write on re-apply), purity (inputs untouched), totality (no panic) and the ApplyUpdate laws (system metadata, status, last-applied record).",
        note="Universe depth <= 3 with 2 keys per level, lists of length <= 3; unbounded random/fuzzed inputs are not claimed.",
        technique="bounded-exhaustive input enumeration (complete cubes over finite universes) against a reference model + explicit-state search over changes of the desired state through the real sync with a differential (fresh start) oracle, closed to a fixpoint",
    ),
    "C10": dict(
        level="Explicit-state model checking (BFS with snapshot/restore of store and caches, deduplicated by a canonical form) of the parent life cycle against the real composite and decorator controllers: every transition is a real sync or an environment step; temporal monitors F1-F7 (finalizer before first child, never added to a deleting parent, right hook with the right finalizing flag, removal only after finalized:true, children follow the finalize answer, no child writes for a dying parent without finalizer/hook or with a GC finalizer, leftover finalizer removed) run on the request and hook logs of every sync.",
        note="Depth-capped (quick 7 from each root, thorough 10): reported as exhaustive:false with the bound. Composite (incl. two live revisions) and decorator are explored separately.",
        technique="explicit-state BFS over the real code (snapshot/restore, canonical-state dedup), temporal monitors on request logs",
    ),
    "C01": dict(
        level="Bounded-exhaustive model checking of reconciliation histories: every scenario of the product configuration x hook program x initial cluster contents (x stale-cache deviations) is driven through real syncs until nothing changes; oracle = independent fixpoint (hook program evaluated on the final cluster: owned set equals desired set, hook-specified fields have the hook's values where the strategy permits updates), bounded rounds, and quiescence (a further sync leaves the store byte-identical and sends no child write).",
        note="Hook programs are pure. Values: one owned field, one foreign field. The quick tier is a covering sub-product, the thorough tier the full product.",
        technique="bounded-exhaustive enumeration of scenarios, each executed to a fixpoint on the real code; differential fixpoint oracle; explicit-state search over changes of the desired state (fixpoint: change sequences of any length) with a fresh-start differential oracle",
    ),
    "C08": dict(
        level="Bounded-exhaustive model checking of complete rollouts under a fair environment: every rollout of the product (children, scopes, method, status checks, selector generation, injection index of a second spec change) is run to completion on the real controller; oracle = completion within the linear bound, Updated=True, exactly one ControllerRevision left, and a stall detector (RolloutWaiting 'missing child' for a child that was in the cache).",
        note="Liveness is checked as bounded liveness (sync count bound), never by wall-clock. Health is a single Ready condition plus observedGeneration.",
        technique="bounded-exhaustive enumeration of fair histories executed on the real code (explicit-state, linear schedules x injection index) + breadth-first search over rollout histories (spec changes, syncs, child deletions; depth 6/8) with a convergence-to-fresh-start check from every reached state",
    ),
    "C07": dict(
        level="Bounded-exhaustive model checking over rollout states: every combination of revision assignment, child content and child health (a superset of the reachable rollout states, each built with the controller's own constructors) is synced once by the real controller; oracle = clauses written from the statement: M0 no double claim, M1 at most one real move and in hook order, M2 only through an open gate (observed, up to date, status checks, observedGeneration for RollingInPlace), M3 every child reconciled to the content of the revision it is assigned to (incl. recreation at an old revision), M4 non-revisioned fields reach all children at once, M5 Updated condition Waiting/Progressing/OnLatest.",
        note="One sync per state (histories are C08/C09's subject). Children carry one template version field and one non-revisioned field.",
        technique="bounded-exhaustive enumeration of protocol states, one real transition from each (explicit-state, superset of reachable states)",
    ),
    "C09": dict(
        level="Exhaustive single-deviation fault/crash enumeration over complete rollouts on the real code: every request of every sync is failed in four ways, and every crash cut is taken (snapshot/restore of store and caches makes each deviation start from the exact fault-free pre-state); oracles: order clause on every sync's request log (all ControllerRevision writes before any child write, none after a failed one), persisted-intent invariants at the cut and after every recovery sync, and equality of the final cluster with the uninterrupted run.",
        note="Single deviations exhaustively; multi-fault sequences are not claimed. The differential oracle compares content (names, specs, labels, owners, revision claims, parent status) modulo resourceVersions and UID incarnations.",
        technique="exhaustive fault and crash-point enumeration (deviation bound 1) with differential oracle against the uninterrupted execution",
    ),
    "C12": dict(
        level="Exhaustive single-fault enumeration (and bounded exhaustive pairs) over rich syncs of both controller kinds on the real code, driven through the real work-queue protocol: non-benign failure => error + AddRateLimited and no Forget; hook 429 (composite) => AddAfter(Retry-After) and no error; a child that keeps failing blocks neither the other children nor the status write; no panic; after the faults stop the cluster converges to the fault-free final state.",
        note="Deviation bound 1 (2 in the thorough tier). Benign races at tolerated positions are not asserted either way.",
        technique="exhaustive fault-position x fault-kind enumeration (deviation-bounded exploration) with differential convergence oracle",
    ),
    "C04": dict(
        level="Model checking of the ControllerRef rules: a complete decision table (selector forms, labels, owner-reference lists, deletion states, every divergence between cached and live parent) for children and ControllerRevisions, judged on the request log (adoption only after a fresh read of a live same-UID parent, adoption/release change only our reference, foreign references kept, never two controllers, non-matching desired children rejected before any write), plus exhaustive schedule exploration of two parents racing to adopt the same orphan.",
        note="Trusts the sim's ObjectMeta validation for the two-controller clause; the race is explored at API-request granularity.",
        technique="bounded-exhaustive decision-table enumeration + exhaustive interleaving exploration (cooperative scheduler, preemption-bounded DFS) on the real code",
    ),
    "C02": dict(
        level="Model checking of ownership safety: deviation-bounded exploration (every request boundary x every environment action x every target, i.e. every interleaving of one external edit with the sync, incl. arbitrarily stale caches) plus exhaustive schedule exploration of two concurrent parents; oracle on every store-changing request, judged against the pre-state in the request log: target controlled by the acting parent except creation and the owner-reference-only adoption of a matching orphan; deletes carry the observed UID and background propagation; creations carry exactly one controller reference.",
        note="One external edit per sync (plus the stale follow-up sync). Known findings: TOCTOU windows that only a resourceVersion precondition / re-check would close, and server-side apply on uncontrolled objects.",
        technique="deviation-bounded exploration of environment interleavings + exhaustive schedule exploration (cooperative scheduler) on the real code, request-log oracle",
    ),
    "C17": dict(
        level="Model checking of cache immutability and serialisability: (a) exhaustive over rollout histories x configurations x every single fault position with the cache-fingerprint oracle and the hook-reflects-server oracle; (b) exhaustive preemption-bounded schedule exploration of two concurrent workers against the serial outcomes. The 'no data race' clause is additionally probed by a free-running race-detector pass, reported separately as supplementary (it is sampling, not enumeration).",
        note="Part (c) is outside the model-checking family and only supplementary; a race it reports is real, its silence is not a proof.",
        technique="exhaustive fault-position enumeration with cache-fingerprint oracle + exhaustive schedule exploration (serialisability); supplementary race-detector pass",
    ),
    "C18": dict(
        level="Bounded-exhaustive model checking of the shared-informer layer: every enabled operation sequence up to the bound is executed on the real SharedInformerFactory / ResourceInformer / sharedEventHandler and compared after every step with a reference model (refcount + per-handler expected event list); plus exhaustive preemption-bounded schedule exploration of 2-3 threads issuing those operations concurrently, with every Lock/RLock of factory.go / informer.go a scheduling point (sync import rewritten to the harness's vsync), outcome required to equal some sequential order under the reference model. Accesses with no lock at all are only probed by a supplementary free-running race-detector pass.",
        note="Sequence length bound 5/7. Close without RemoveEventHandlers and double Close are API misuse and excluded. Lock-level interleavings: 4 (thorough 6) concurrent programs, <= 2 (3) preemptions.",
        technique="bounded-exhaustive operation-sequence enumeration against a reference model (explicit-state) + exhaustive preemption-bounded schedule exploration at lock granularity (linearisability vs the model); supplementary race-detector pass",
    ),
    "C20": dict(
        level="Explicit-state model checking of the hosting layer: breadth-first search over event sequences on the real reconcilers of both controller kinds, state deduplicated by (stored spec, running spec) per name - the single-name search closes (fixpoint), so event sequences of any length are covered for one name; after every event the running instances are compared with the reference model and probed with a parent event for wake-up and hook isolation.",
        note="Behaviour units run with numWorkers=0 (the harness is the worker); a separate life-cycle unit runs real workers (numWorkers=2) over every event sequence to depth 3 on one name and asserts the goroutine census (no worker of a stopped instance survives Stop; exactly 2 per running instance eventually) and that Stop waits for a worker that is inside its sync hook (no hook response handling or write on behalf of a stopped instance). Two-name searches are depth-capped and reported as such.",
        technique="explicit-state BFS over the real reconcile function with a reference model (fixpoint for one name)",
    ),
}

PENDING_REASON = "check not built yet in this session (planned in DESIGN.md §4); no claim is made until its check runs clean on the unchanged tree"


def NOT_APPLICABLE(claimed):
    return [dict(property_id=p, reason=PENDING_REASON) for p in ALL if p not in claimed]


NOTES = ("All checks run the real metacontroller code, injected into /repo's current working tree through go -overlay "
         "(no files in /repo are modified; -modfile keeps go.mod untouched). See DESIGN.md.")
