"""Check registry used by bin/check: which test functions (units) make up each property's check."""

COMPOSITE = "pkg/controller/composite"
DECORATOR = "pkg/controller/decorator"
COMMON = "pkg/controller/common"
CUSTOMIZE = "pkg/controller/common/customize"
APPLY = "pkg/dynamic/apply"
INFORMER = "pkg/dynamic/informer"
HOOKS = "pkg/hooks"

SIM_ASSUMPTIONS = [
    "sim API-server semantics (DESIGN.md 2.2): optimistic concurrency, UID preconditions, finalizers, status subresource, real apimachinery ObjectMeta validation",
    "vcache informer (DESIGN.md 2.3): caches change only through explicit harness deliveries",
    "hook programs are pure functions of the hook request",
]

CHECKS = {
    "C06": dict(
        level="model_checking",
        rule="full table method(8) x kind(2) x difference class(6) x child deleting(2) x still desired(2) x children(1-2) for composite and decorator; "
             "non-trivial = the statement demands at least one write or an error for the case",
        units=[
            dict(pkg=COMPOSITE, test="TestVerifC06", shards=dict(quick=4, thorough=8), budget=dict(quick=300, thorough=900)),
            dict(pkg=DECORATOR, test="TestVerifC06", shards=dict(quick=4, thorough=8), budget=dict(quick=300, thorough=900)),
        ],
        assumptions=SIM_ASSUMPTIONS,
    ),
}
