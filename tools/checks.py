"""Check registry used by bin/check: which test functions (units) make up each property's check."""

COMPOSITE = "pkg/controller/composite"
DECORATOR = "pkg/controller/decorator"
COMMON = "pkg/controller/common"
CUSTOMIZE = "pkg/controller/common/customize"
APPLY = "pkg/dynamic/apply"
INFORMER = "pkg/dynamic/informer"
HOOKS = "pkg/hooks"

SIM_ASSUMPTIONS = [
    "sim API-server semantics (DESIGN.md 2.2): optimistic concurrency, UID preconditions, finalizers, status subresource, real apimachinery ObjectMeta validation",
    "vcache informer (DESIGN.md 2.3): caches change only through explicit harness deliveries",
    "hook programs are pure functions of the hook request",
]

CHECKS = {
    "C06": dict(
        level="model_checking",
        rule="full table method(8) x kind(2) x difference class(6) x child deleting(2) x still desired(2) x children(1-2) for composite and decorator; "
             "non-trivial = the statement demands at least one write or an error for the case; x an undesired sibling of the same kind whose DELETE is refused (403): reported, and the other children are treated exactly as without it; difference class 'foreign item in a list the hook names and empties'; Widget cases declare a third child type with the same Kind and plural in the core group (opposite strategy, namesake child that never differs)",
        units=[
            dict(pkg=COMPOSITE, test="TestVerifC06", shards=dict(quick=4, thorough=8), budget=dict(quick=300, thorough=900)),
            dict(pkg=DECORATOR, test="TestVerifC06", shards=dict(quick=4, thorough=8), budget=dict(quick=300, thorough=900)),
        ],
        assumptions=SIM_ASSUMPTIONS,
    ),
    "C03": dict(
        level="model_checking",
        rule="parent scope(2) x declared child kinds(3 sets per scope) x generateSelector(2) x 2 (thorough: 3) slots each ranging over role(9 composite / 8 decorator) x namespace(2) x kind(declared + one undeclared); "
             "one real sync per case; non-trivial = at least one object present in the cluster; every fifth non-trivial case is also run after a second controller on the same parent and child resources was started and stopped again (the informers this controller lists from must survive); role 'orphan in the cache, adopted by another parent on the server' (the adoption is refused; the object must never be shown to the hook); selector kinds: explicit matchLabels, generated, and negative-only (tier NotIn [canary]: selects objects without labels); decorator: a second decorated parent kind with a namesake parent whose attachments are its own; decorator roles with the controller reference not last / an explicit non-controller owner first; namespaced parents also declare the set [leafs, cwidgets] (a cluster-scoped child kind)",
        units=[
            dict(pkg=COMPOSITE, test="TestVerifC03", shards=dict(quick=8, thorough=16), budget=dict(quick=900, thorough=3000)),
            dict(pkg=DECORATOR, test="TestVerifC03", shards=dict(quick=4, thorough=16), budget=dict(quick=900, thorough=3000)),
        ],
        assumptions=SIM_ASSUMPTIONS,
    ),
    "C16": dict(
        level="model_checking",
        rule="target (status subresource(2) x labels k1,k2 (6) x annotations (6) x status(2) x foreign finalizer(2)) x response (label map over k1,k3[,k2 thorough] in {unnamed,value,null} x annotation map likewise x status {null,equal,different}) x mode {no finalize hook, finalize hook+live, finalizing, finalizing+finalized} x cache fresh/stale; "
             "plus selector table: label selector kind(4) x annotation selector kind(4) x matches(2x2) x leftover finalizer(2) x finalize hook(2); every case is distinct and runs one real sync; value alphabet includes the empty string (for the key the target lacks); bystander attachments of a previous incarnation of the target and of a namesake in another API group; a marked look-alike carrying the target's UID lives in another namespace",
        units=[
            dict(pkg=DECORATOR, test="TestVerifC16", shards=dict(quick=16, thorough=16), budget=dict(quick=600, thorough=3000)),
        ],
        assumptions=SIM_ASSUMPTIONS + ["the sim prunes null-valued fields of custom resources like a structural-schema CRD does"],
    ),
    "C14": dict(
        level="model_checking",
        rule="configuration (parent scope x generateSelector x ignoreStatusChanges x controller selector) x every event shape: parent add/delete/tombstone/6 update kinds/resync for matching, non-matching and finalizer-carrying parents; child add/update/delete/tombstone/resync for 15 roles (incl. a controller reference naming the parent kind in another API version); parents incl. one that carries the finalizer plus a garbage-collector finalizer while being deleted; with and without a finalize hook; related-object events (8); "
             "each case = fresh world with the real Start()-installed handlers, one delivered event, queue compared with the decision table; in the related-object cases the customize hook answers 503 for two other parents that were never synced; a parent with a negative-only selector and an orphan without labels; cluster-scoped parents select their related object by name only (any namespace); child role 'owned by the parent that is in foreground deletion'",
        units=[
            dict(pkg=COMPOSITE, test="TestVerifC14", shards=dict(quick=4, thorough=4), budget=dict(quick=300, thorough=600)),
            dict(pkg=DECORATOR, test="TestVerifC14", shards=dict(quick=4, thorough=4), budget=dict(quick=300, thorough=600)),
        ],
        assumptions=SIM_ASSUMPTIONS,
    ),
    "C11": dict(
        level="model_checking",
        rule="hook status(6) x live-vs-cached parent(5: same, spec edited, labels edited, recreated with new UID, gone) x existing status(3) x real conflicts caused between GET and PUT(0,1,2,4) x injected fault on the status path(5) x child reconciliation ok/fails; "
             "plus the finalize path (finalized x live edited x foreign finalizer); every case distinct, one real sync each + the live status edited behind the cache (cached status already equal to the desired one); discovery lists a scale subresource after status for the parent kind; plus rolling parents: hook status shape(9: none, flat, nested, other conditions, an own Updated condition first / in the middle / alone, empty list) x rollout phase(4: on latest, progressing, waiting, completed) x method(2) x generateSelector(2), judged sync + repeat: stored status = hook status of the latest revision with only the Updated condition replaced/appended + observedGeneration, no write when nothing changes; plus a parent kind for which the server keeps no metadata.generation (observedGeneration 0); the generation-less parent kind is listed in discovery with its status subresource BEFORE the resource; the small status unit also runs with a cluster-scoped parent",
        units=[
            dict(pkg=COMPOSITE, test="TestVerifC11", shards=dict(quick=8, thorough=16), budget=dict(quick=300, thorough=900)),
            dict(pkg=COMPOSITE, test="TestVerifC11Roll", shards=dict(quick=2, thorough=2), budget=dict(quick=300, thorough=600)),
        ],
        assumptions=SIM_ASSUMPTIONS + ["conflicts are caused (a real external edit between the controller's GET and PUT), never fabricated; client-go's real 10/50/250 ms conflict back-off runs but is never used as an oracle"],
    ),
    "C13": dict(
        level="model_checking",
        rule="grammar: valid response with every node replaced by each of 12 JSON values (missing, null, true, 0, -1, 1e400, 2^63, string, [], [null], {}, {x:null}); singles exhaustively (thorough: all pairs for the base configurations) + 17 raw bodies + 6 non-200 statuses, "
             "x mode(non-rolling, rolling, rolling with two live revisions, finalizing) x generateSelector x strict/loose, for composite sync/finalize, customize and decorator sync/finalize responses; every rejected or failing case is followed by the work-queue retry (same parent, same answer: no panic, rejected again, no writes) and, for customize answers, by a related-object event; every case distinct; mode 4: a rollout that waits for a missing child of the latest revision while another child is still on the old one; mode 5: rollout under way; plus an answer listing children of one kind under two versions (12 repetitions per configuration: bucket order is map order); value alphabet includes [null,null]",
        units=[
            dict(pkg=COMPOSITE, test="TestVerifC13", shards=dict(quick=12, thorough=16), budget=dict(quick=600, thorough=3000)),
            dict(pkg=DECORATOR, test="TestVerifC13", shards=dict(quick=4, thorough=16), budget=dict(quick=600, thorough=3000)),
        ],
        assumptions=SIM_ASSUMPTIONS + ["byte-level coverage-guided fuzzing is outside this technique family and not claimed"],
    ),
    "C19": dict(
        level="model_checking",
        rule="part 1: status(12 incl. transport error) x ETag header(3) x Retry-After(5) x body(6) x strict/loose x plain/etag executor x cache state(3) on the real webhookExecutor.Call; "
             "part 2: ALL interleavings of 2 (thorough: 3 -> 1680 schedules) concurrent calls with the same cache key at the granularity enrich-headers / server decision / adjust+decode, x every pattern of server content changes x cache primed or empty + a cache primed with a body that carries an unknown field (stored with its ETag before decoding: strict mode must reject it again when a 304 brings it back); plus every sequence of 3 (thorough 4) calls through one ETag-enabled executor over 2 parents x 9 answers (200 with E1/E2/no ETag, 200+E1 with an unknown field, 304, 412, 412 carrying an ETag and a JSON body, 503 error page, 429) in loose and strict mode (2 x 18^3 = 11 664; thorough 209 952), compared call by call with a reference model; plus a production-built executor (real http.Client behind the metrics instrumentation, timeout 200 ms) against a server that stops talking before the headers / after the headers / in the middle of the body, with and without ETag, loose and strict: the call returns an error (waited for with a 60 s liveness watchdog) (per parent the (ETag, body) pair that last arrived together): If-None-Match sent, verdict, decoded body, cache content; delay asserted for every Retry-After form incl. absent / garbage (0); 2-thread interleavings also with one opaque tag alternating between weak and strong form",
        units=[
            dict(pkg=HOOKS, test="TestVerifC19", shards=dict(quick=2, thorough=8), budget=dict(quick=300, thorough=900)),
            dict(pkg=HOOKS, test="TestVerifC19Seq", shards=dict(quick=4, thorough=16), budget=dict(quick=300, thorough=900)),
            dict(pkg=HOOKS, test="TestVerifC19Timeout", shards=dict(quick=4, thorough=4), budget=dict(quick=600, thorough=900)),
        ],
        assumptions=["scripted HttpClientInterface instead of a socket; each phase performs at most one ETag-cache operation, so phase interleavings are complete for this code (Lipton reduction)"],
        traces_are_evals=True,
    ),
    "C15": dict(
        level="model_checking",
        rule="parent scope(2) x all rule sets of 1 and 2 rules over resource(2: namespaced, cluster-scoped) x selection(10: none, empty selector, matchLabels, matchExpressions, namespace own/foreign, names, namespace+names, two invalid mixes) = 840 sets, against 7 related objects across two namespaces and cluster scope, each also with a second hosted controller (own customize hook, other rules) looking at the same parent first, for composite and decorator controllers; "
             "a related object that changes while no customize answer is remembered for the parent's new generation must still wake the parent; "
             "each case: sync, cached re-sync, a change of every related object, a parent generation change, finalize; the wake-up agreement is re-checked with two more parents around for which the customize hook fails; the two names of the names rule are listed in descending order (composite; ascending in the decorator unit); a selected related object that is terminating and then loses the label it was selected by",
        units=[
            dict(pkg=COMPOSITE, test="TestVerifC15", shards=dict(quick=4, thorough=8), budget=dict(quick=300, thorough=600)),
            dict(pkg=DECORATOR, test="TestVerifC15", shards=dict(quick=4, thorough=8), budget=dict(quick=300, thorough=600)),
        ],
        assumptions=SIM_ASSUMPTIONS,
    ),
    "C05": dict(
        level="model_checking",
        rule="every triple (observed, lastApplied, desired), each side absent or drawn from a complete finite universe, enumerated exhaustively per family: F1 nested maps/scalars/nulls (quick 68^3, thorough 404^3 triples), F2 plain lists and list-maps under each of the 7 conventional merge keys and under none (quick up to 75^3, thorough 237^3 per key), "
             "F3 items carrying two conventional keys (21 key pairs), F4 ApplyUpdate with system metadata/status/last-applied wrapping; non-trivial = in the statement's domain with non-empty observed and desired; plus an end-to-end explicit-state search over CHANGES of the desired state through the real sync (parent spec = value x replicas(1-2) x a child map {a,b}/{a}/{}/absent x a list-map two/one/no items x desired child with/without a status key [x hook annotation x extra label in the thorough tier]; events: every single-field change from every reachable spec - alone, together with a sync hook that answers 500 once, and together with one refused child write -, child deleted / orphaned / drifted; hook style: builds children from scratch / returns the observed annotations / returns the observed metadata and status; InPlace, Recreate, OnDelete under dynamic apply and server-side apply, composite children and decorator attachments): after every event the controller is synced to quiescence under a fair environment and the store must equal the store of a fresh world started directly with the same spec (differential oracle); the search closes (fixpoint), so change sequences of any length are covered; history search (see C01) incl. the event 'someone else sets spec.extra.b on a child while the hook does not desire it', which the hook may later take over and give back",
        units=[
            dict(pkg=COMMON, test="TestVerifC05", shards=dict(quick=16, thorough=16), budget=dict(quick=600, thorough=3000)),
            dict(pkg=COMPOSITE, test="TestVerifC05Hist", shards=dict(quick=4, thorough=7), budget=dict(quick=600, thorough=1800)),
            dict(pkg=DECORATOR, test="TestVerifC05Hist", shards=dict(quick=3, thorough=4), budget=dict(quick=600, thorough=1800)),
        ],
        assumptions=["reference = the documented convention (docs/src/api/apply.md) with the merge-key precedence list of apply.go; null-valued desired/lastApplied fields are checked for purity, totality and idempotence only ('null = no opinion')",
                     "randomly generated / coverage-guided fuzzed triples are outside this technique family and not claimed"],
    ),
    "C10": dict(
        level="model_checking",
        rule="explicit-state BFS over parent life cycles per configuration (finalize hook none/keep/teardown/finalized-at-once x rolling x hook removed later): events create, relabel (match/unmatch), delete background/foreground/orphan, foreign finalizer add/drop, spec edit, deliverAll, gc, reconfigure, sync, sync with a caused conflict / injected 500 on the finalizer write; "
             "two roots (empty cluster; steady parent with children); state = canonical store + caches + staleness + one-shot budgets; monitors F1-F8 on every sync transition (F8: in a fault-free sync on a fresh cache in which every finalize answer said finalized:true the finalizer does come off); finalize programs also include per-revision answers (finalized only for the edited template) with children dropped ('split') or kept ('split-keep'): F4 holds a finalized:false answer against the removal when the revision it was given for is still alive after the sync; in the rolling configurations 'relabel' removes the parent's labels altogether; event 'replace': the parent is deleted and re-created under its name (new UID) before the finalizer has been added",
        units=[
            dict(pkg=COMPOSITE, test="TestVerifC10", shards=dict(quick=15, thorough=15), budget=dict(quick=240, thorough=3000)),
            dict(pkg=DECORATOR, test="TestVerifC10", shards=dict(quick=7, thorough=7), budget=dict(quick=240, thorough=3000)),
        ],
        assumptions=SIM_ASSUMPTIONS + ["canonical form: resourceVersions replaced by fresh/stale bits, UIDs renamed in order of appearance (the code compares both only for equality)"],
        traces_are_evals=False,
    ),
    "C01": dict(
        level="model_checking",
        rule="configuration (parent scope x 1-2 child kinds x 6 update methods x generateSelector x finalize hook x dynamic/server-side apply) x hook program (static 0-2, fromSpec, ordered StatefulSet-like, echoStatus) x initial cluster contents (two desired-name slots over {absent, owned, owned drifted, owned+foreign field, matching orphan, drifted orphan} x stale owned child x foreign-owned look-alike x same name in the other namespace; cluster-scoped parents: every desired child also has a same-named twin in a second namespace; some desired children carry annotations of the hook's own, omit their namespace, or echo the generated selector label) "
             "x stale-cache deviations (thorough: partial delivery in the first 0-2 rounds); each scenario is driven `sync; deliver; gc` to quiescence within N rounds, then one more sync; quick tier = a covering sub-product; plus an end-to-end explicit-state search over CHANGES of the desired state through the real sync (parent spec = value x replicas(1-2) x a child map {a,b}/{a}/{}/absent x a list-map two/one/no items x desired child with/without a status key [x hook annotation x extra label in the thorough tier]; events: every single-field change from every reachable spec - alone, together with a sync hook that answers 500 once, and together with one refused child write -, child deleted / orphaned / drifted; hook style: builds children from scratch / returns the observed annotations / returns the observed metadata and status; InPlace, Recreate, OnDelete under dynamic apply and server-side apply, composite children and decorator attachments): after every event the controller is synced to quiescence under a fair environment and the store must equal the store of a fresh world started directly with the same spec (differential oracle); the search closes (fixpoint), so change sequences of any length are covered; plus rollout histories with the replica count outside the revisioned fields (revisionHistory.fieldPaths=[spec.template], hook listing the highest ordinal first; RollingRecreate / RollingInPlace; events sync, template / replicas / common change, child deleted; depth 6 (8), at most 2 (3) changes): from every reached state a fair continuation ends in the cluster a fresh start with the same spec converges to; every change of the history search also with one child write refused once with 422; a refused write or a failed hook must make the sync report an error; the second child kind of the two-kind configurations is in the same group and version as the first and has a child of the same name",
        units=[
            dict(pkg=COMPOSITE, test="TestVerifC01", shards=dict(quick=12, thorough=16), budget=dict(quick=600, thorough=3300)),
            dict(pkg=DECORATOR, test="TestVerifC01", shards=dict(quick=4, thorough=16), budget=dict(quick=600, thorough=3300)),
            dict(pkg=COMPOSITE, test="TestVerifC01Hist", shards=dict(quick=4, thorough=7), budget=dict(quick=600, thorough=1800)),
            dict(pkg=DECORATOR, test="TestVerifC01Hist", shards=dict(quick=3, thorough=4), budget=dict(quick=600, thorough=1800)),
            dict(pkg=COMPOSITE, test="TestVerifC01RollHist", shards=dict(quick=8, thorough=12), budget=dict(quick=600, thorough=1800)),
        ],
        assumptions=SIM_ASSUMPTIONS + ["server-side apply is the sim's model of SSA for schemaless custom resources (per-manager applied configuration, lists atomic, force)"],
    ),
    "C08": dict(
        level="model_checking",
        rule="all fair rollouts: children n=1..3 (thorough 4) x parent/child scope (namespaced/namespaced, cluster/namespaced, cluster/cluster) x RollingInPlace/RollingRecreate x status checks on/off x generateSelector on/off x the sync index (-1..3n+4) at which a second spec change arrives; "
             "fair environment after every sync (caches delivered, GC, every child healthy and observed); completion within 2n+6 / 3n+6 syncs; first change template or template+scale-down, second change template / scale-down / scale-up, Updated=True, exactly one ControllerRevision; never 'missing child' for a cached child; plus two rolling child kinds whose children share names (n=1..2, thorough 3), the second kind dropped / brought back by a revisioned field before or during a template rollout (first change tpl / tpl+drop / drop, second change tpl / drop / tpl+drop / add / scale-down at every sync index); the history search also fires syncs whose first / second ControllerRevision write is refused (500); the children's controller reports observedGeneration = generation / 0 / nothing; the second kind of the two-kind rollouts is the core-group twin of the first (same Kind, same plural, same child names)",
        units=[
            dict(pkg=COMPOSITE, test="TestVerifC08", shards=dict(quick=8, thorough=16), budget=dict(quick=300, thorough=1200)),
            dict(pkg=COMPOSITE, test="TestVerifC08Hist", shards=dict(quick=8, thorough=16), budget=dict(quick=600, thorough=3000)),
        ],
        assumptions=SIM_ASSUMPTIONS + ["fair environment: the harness, acting as the children's own controllers, marks every child Ready=True with observedGeneration=generation after every sync"],
    ),
    "C07": dict(
        level="model_checking",
        rule="rollout states built directly in the cluster: per child (revision assignment: unclaimed / v1..latest) x (content: missing / v1..latest) x (health: healthy, Ready=False, no status, stale observedGeneration, wrong reason), n=1..2 children (thorough: 3 with three health values), "
             "x method(2) x status checks(4: none, type, +status, +reason) x field paths (default; custom; custom + non-revisioned field changed) x 2 or 3 live revisions x latest revision exists or not x generateSelector x hook with its own Updated condition; one real sync from every state, clauses M0-M5 + states in which an older revision also claims a child that only its own view of the parent desires (tail of a scale-down), existing or not: M6 = claimed by no revision afterwards, never written, deleted if present; configuration with an empty revisionHistory block (= default)",
        units=[
            dict(pkg=COMPOSITE, test="TestVerifC07", shards=dict(quick=16, thorough=16), budget=dict(quick=600, thorough=3300)),
        ],
        assumptions=SIM_ASSUMPTIONS + ["the enumerated states are a superset of the reachable rollout states (children and ControllerRevisions are written exactly as the controller writes them: real newControllerRevision / SetLastApplied); the clauses are per-sync invariants that the statement makes for any state"],
    ),
    "C09": dict(
        level="fault_enumeration",
        rule="for every fair rollout scenario (n=1..2 children, thorough 3; RollingInPlace/RollingRecreate; generateSelector on/off; optional second template change at sync k) and every sync of it: (a) every crash cut = each prefix of the non-child requests, then every subset of the child writes (sync unwound, controller rebuilt, caches refilled from the store); "
             "(b) each of 409, 500, timeout (not applied), lost response (applied) on every single request; then the fair continuation. A deviation is non-trivial and distinct by construction (sync index x request identity x kind / cut); invariant added: an existing desired child whose old revision still has a record is itself in some record; twin-kind scenarios (two rolling kinds with the same Kind and child names, entry order of the starting revision pinned both ways)",
        units=[
            dict(pkg=COMPOSITE, test="TestVerifC09", shards=dict(quick=16, thorough=16), budget=dict(quick=600, thorough=3300)),
        ],
        assumptions=SIM_ASSUMPTIONS + ["requests to distinct objects commute in the sim, so 'prefix + any subset of child writes' covers every order the map iteration can produce; the order of the (at most three) ControllerRevision writes of one sync is the one the run produced",
                                       "random pairs of faults are outside this technique family; pairs are not claimed"],
    ),
    "C12": dict(
        level="fault_enumeration",
        rule="base scenarios: composite 'mixed' sync (finalizer add, adopt, release, delete undesired, in-place update, recreate, create, status write), composite 'rolling' (second move of a rollout: ControllerRevision writes + child update), decorator 'mixed' (finalizer, label/annotation/status writes, attachment create/update/recreate/delete); "
             "every request of the sync x each of 404, 409, 410, 422, 500, timeout, lost response (singles exhaustively; thorough: all pairs of requests for 409/500/timeout), sticky per-child failures x 3 kinds, a failing child combined with a benign end of the status path, hook 500/503/429/refused/garbage, a 429 for only the old / only the latest revision's call of a rollout; real benign races (the environment really removes / edits the target just before each child get/update/delete: tolerated = the hook is still called, no error is reported, same final state); each through the real processNextWorkItem, then fault-free to quiescence; plus the mixed scenario with an ETag-enabled hook behind request-derived ETag middleware (tag on every answer incl. error pages, 304 on If-None-Match), hook error pages with JSON bodies; quiescence after the fault requires an error-free sync; fault kinds 404, 409, 410, 422, 500, 403, 429, server timeout, transport timeout, lost response; race 'parent-replaced' before every request that reads or writes the parent",
        units=[
            dict(pkg=COMPOSITE, test="TestVerifC12", shards=dict(quick=8, thorough=16), budget=dict(quick=300, thorough=1800)),
            dict(pkg=DECORATOR, test="TestVerifC12", shards=dict(quick=2, thorough=4), budget=dict(quick=300, thorough=900)),
        ],
        assumptions=SIM_ASSUMPTIONS + ["answers the code must treat as failures are fabricated at the request; whether a (request, kind) pair is a documented benign race is a table written from the statement (tolerated: nothing asserted about the error)",
                                       "random multi-fault sequences are outside this technique family; bounded exhaustive pairs replace them"],
    ),
    "C04": dict(
        level="model_checking",
        rule="part 1: selector form(6: matchLabels, In, NotIn, Exists, generated, empty) x object labels(3) x owner-reference list(6) x object deleting(2) x cached parent alive/deleting x live parent(4: same, deleting, replaced UID, gone) x children and ControllerRevisions x desired-child labels match/no-match (with selector generation: a foreign controller-uid label) x the live object's other owner references diverging from the cached ones (one added / one removed since observed: neither dropped nor resurrected), one real sync each; "
             "part 2: two parents with the same selector adopt one orphan concurrently - all interleavings at API-request granularity with at most 2 preemptions (thorough: unbounded) under the cooperative scheduler; plus the adoption re-check itself failing (500 / 429 / timeout on the uncached parent read) with a second candidate in the same claim pass; live owner list taken over by another parent (one reference, not ours); owner variant: an owner of the parent's kind and name in another API group (references compared by UID)",
        units=[
            dict(pkg=COMPOSITE, test="TestVerifC04", shards=dict(quick=4, thorough=8), budget=dict(quick=300, thorough=1800)),
        ],
        assumptions=SIM_ASSUMPTIONS + ["the 'at most one controller reference' clause is enforced jointly with the API server's own ObjectMeta validation (real apimachinery validation in the sim)"],
    ),
    "C02": dict(
        level="model_checking",
        rule="part 1: a rich composite sync (create, in-place update, recreate, delete undesired, adopt, release; desired names occupied by a foreign-owned object and by a non-matching orphan; same-named look-alikes in the other namespace) under dynamic and server-side apply x every request boundary (0 = before the sync: stale cache) x environment action (delete, delete+recreate, foreign controller, clear owners, relabel) x target object(8), then a second sync on the partly stale caches (thorough: every PAIR of environment actions, ~410 000 cases, from a restored snapshot); bystanders include objects that list the parent as a plain, non-controller owner; the child to be created carries a hook-provided plain owner reference to the parent; "
             "part 2: two parents with overlapping selectors syncing concurrently, all interleavings at API-request granularity with <= 2 (thorough 3) preemptions; part 3: the decorator counterpart (attachments controlled by the target AND carrying the decorator's marker; environment action 'other decorator's marker'); every store-changing request is judged against its logged pre-state; the acting parent's selector has a history (it also selected the bystander orphans' label while the children were first created and was narrowed before the judged sync); boundaries are enumerated by position AND by request identity (every environment action on the target of a request just before that request, whatever its position in the run); actions include a non-matching namesake replacing the object; the hook also desires one child in another namespace (born with the controller reference)",
        units=[
            dict(pkg=COMPOSITE, test="TestVerifC02", shards=dict(quick=8, thorough=16), budget=dict(quick=600, thorough=3000)),
            dict(pkg=DECORATOR, test="TestVerifC02", shards=dict(quick=4, thorough=8), budget=dict(quick=600, thorough=1800)),
        ],
        assumptions=SIM_ASSUMPTIONS + ["'modified' = the store changed (a byte-identical update accepted as a no-op is not judged)", "one environment deviation per run (thorough: the second sync adds a second stale step)"],
    ),
    "C17": dict(
        level="model_checking",
        rule="(a) rollout histories (bring-up, two template edits -> three live revisions, delete -> finalize) x revision field paths (default, spec.template, spec.template.ver) x customize x finalize x dynamic/server-side apply/dynamic with log verbosity 10 (code behind V(n).Enabled() guards) x a 500 injected at every single request position of the history: cache fingerprint (pointer + content) around every sync and 'the hook was sent what the server delivered'; "
             "(a2) the decorator counterpart: decorate, edit, unselect/delete with finalize x customize x InPlace/Recreate x log verbosity x a 500 at every request position; (b) two workers syncing distinct rolling parents that share every informer, the customize cache and the SSA memo: all interleavings at API-request/hook granularity with <= 2 (thorough 3) preemptions, outcome (store + hook-request multiset) must equal a serial order's; "
             "(c) supplementary, outside the family: the same bodies free-running under the race detector (60 / 300 repetitions x 4 rounds x 3 concurrent syncs with parallel per-revision hook calls); every request of the history (by request identity) also fails with 429, server timeout, transport timeout (thorough: 403); the race pass ends with a round in which every per-revision hook call fails; the customize answer also selects a cluster-scoped related object by name; the finalize hook of the history answers finalized:true",
        units=[
            dict(pkg=COMPOSITE, test="TestVerifC17", shards=dict(quick=8, thorough=16), budget=dict(quick=600, thorough=1800)),
            dict(pkg=DECORATOR, test="TestVerifC17", shards=dict(quick=2, thorough=4), budget=dict(quick=600, thorough=1800)),
            dict(pkg=COMPOSITE, test="TestVerifC17Race", race=True, shards=1, budget=dict(quick=600, thorough=1800), env=dict(GOMAXPROCS="8")),
        ],
        assumptions=SIM_ASSUMPTIONS + ["the cache-fingerprint oracle also runs inside the checks of C01, C03, C06-C13, C15, C16 (every sync of every scenario)",
                                       "absence of unsynchronised accesses cannot be decided by schedule enumeration at lock granularity: part (c) is a race-detector pass (sampling) and is supplementary; it can only ever report real races"],
    ),
    "C18": dict(
        level="model_checking",
        rule="all enabled operation sequences up to length 5 (thorough 7; 3 subscribers / 2 resources: one less) (part 1) over subscribe, subscribe to an undiscovered resource, addHandler, addHandler with own resync period, removeHandlers, close (remove+close as production does), object add/update/delete, tick of a handler's own resync timer; "
             "after every operation the real factory/wrapper is compared with the reference model: refcount, informer running iff subscribed, LIST per incarnation, watch streams open, per-handler event sequence (add-time replay, later events, silence after removal); one configuration of the sequence search uses a cluster-scoped resource; deletions arrive as tombstones (DeletedFinalStateUnknown) in the two-version and cluster-scoped configurations",
        rewrite_sync=True,
        units=[
            dict(pkg=INFORMER, test="TestVerifC18", shards=dict(quick=16, thorough=16), budget=dict(quick=600, thorough=3000)),
            dict(pkg=INFORMER, test="TestVerifC18Conc", shards=dict(quick=6, thorough=9), budget=dict(quick=600, thorough=3000)),
            dict(pkg=INFORMER, test="TestVerifC18Race", race=True, shards=1, budget=dict(quick=600, thorough=1800), env=dict(GOMAXPROCS="8")),
        ],
        assumptions=["client-go's SharedIndexInformer is replaced by the deterministic vcache informer (list-watch mode against the sim); the per-handler resync ticker is fired by the harness (vtime import rewrite); everything else in factory.go / informer.go is the real code",
                     "lock-level interleavings: factory.go / informer.go are additionally built against vsync (import rewrite of sync), every Lock/RLock of a scheduler thread is a scheduling point; 4 (thorough 6) concurrent programs of 2-3 threads, all schedules with <= 2 (3) preemptions, outcome must equal a sequential order under the reference model; unsynchronised accesses (no lock at all) are invisible to this and only probed by the supplementary race-detector pass"],
        traces_are_evals=True,
    ),
    "C20": dict(
        level="model_checking",
        rule="explicit-state BFS over sequences of CompositeController / DecoratorController events through the real Metacontroller.Reconcile: create, spec-changing update, no-op (metadata-only) update, delete, with 18 (decorator 16) spec variants = 2 plain + 8 valid optional-webhook-field variants (every ETag field set or unset, timeout zero/negative, strict, service+path) + 8 (6) configurations that cannot start; "
             "one name with the full alphabet to depth 3 (thorough 4; the frontier empties = any number of further events), two names with a reduced alphabet to depth 3 (thorough 5, full alphabet 3); state = stored spec + running spec per name; after every event: instance set, specs, restart/no-op identity, stopped instances (queue shut, no handlers), factory refcounts, parent-event wake-up and hook isolation + a stop while the first sync is still waiting for the customize hook: subscriptions to related resources opened by that sync after Stop began must be released; plus: stop while a worker waits for the cache of a related resource whose LIST never succeeds (subscription must be released); spec alphabet includes resyncPeriodSeconds 0 / negative and an empty revisionHistory block; the CRDs carry per-version subresources (older version of nothings has status, v1 has not)",
        units=[
            dict(pkg=COMPOSITE, test="TestVerifC20", shards=dict(quick=8, thorough=16), budget=dict(quick=600, thorough=3000)),
            dict(pkg=DECORATOR, test="TestVerifC20", shards=dict(quick=8, thorough=16), budget=dict(quick=600, thorough=3000)),
            dict(pkg=COMPOSITE, test="TestVerifC20Workers", shards=dict(quick=2, thorough=4), budget=dict(quick=600, thorough=1200)),
            dict(pkg=DECORATOR, test="TestVerifC20Workers", shards=dict(quick=2, thorough=4), budget=dict(quick=600, thorough=1200)),
        ],
        assumptions=SIM_ASSUMPTIONS + ["controller-runtime's fake client serves the controller objects and CRDs; in the behavioural units numWorkers=0 and the harness is the worker of every hosted instance; the worker life-cycle unit (TestVerifC20Workers, numWorkers=2, all event sequences to depth 3 on one name) asserts only structural facts: goroutine census never above 2 x running instances right after an event, and eventually equal; and, for every sequence whose last event stops a running instance, with one worker held inside its sync hook: the reconciler must not return before that worker is done"],
        traces_are_evals=False,
    ),
}
