import json,subprocess,re,sys,os,glob
from concurrent.futures import ThreadPoolExecutor
def one(d):
    name=os.path.basename(d); cid=name[:3]
    check={'C16b':'C10','C17c':'C15','C09e':'C07','C11e':'C16','C06g':'C05','C07h':'C09','C16h':'C12','C07j':'C09','C11j':'C16','C17j':'C04','C16k':'C03','C10l':'C01','C06l':'C01','C04l':'C01','C12l':'C14','C01m':'C10','C02m':'C03'}.get(name,cid)
    r=subprocess.run(['/verif/bin/check',check,'quick','--patch',d+'/patch.diff','--tag','meta'+name],capture_output=True,text=True)
    keys=sorted(set(re.findall(r'VIOLATION property=\S+ replay=\S+ key=(\S+)',r.stdout)))
    m=json.load(open(d+'/meta.json'))
    m['breaks_property']=cid; m['check_id']=check
    m['caught_by']='%s (%s)'%(check,', '.join(k.split(':',1)[1] for k in keys[:4])) if keys else 'NOT CAUGHT'
    m['check_command']='bin/check %s quick --patch seeded/%s/patch.diff'%(check,name)
    m['needs_to_manifest']='see NOTES.md (written by the seeding agent)'
    m['round']={'b':2,'c':3,'d':4,'e':5,'f':6,'g':7,'h':8,'i':9,'j':10,'k':11,'l':12,'m':13}[sys.argv[1]]
    json.dump(m,open(d+'/meta.json','w'),indent=1)
    return name,m['caught_by'][:150]
ds=sorted(glob.glob('/verif/seeded/C??'+sys.argv[1]))
with ThreadPoolExecutor(4) as ex:
    for n,c in ex.map(one,ds): print(n,c,flush=True)
