#!/usr/bin/env python3
"""Build the go -overlay description that injects the /verif harness into /repo without touching it.

  /verif/harness/overlay/<rel>   ->  /repo/<rel>          (harness packages, export files, check tests)
  rewritten copies of working-tree files (import path rewrites only) -> /verif/build/<tag>/rewritten/...
  optional mutant / candidate patch (unified diff against /repo) applied to copies

Usage: mkoverlay.py <tag> [--rewrite-sync] [--patch FILE]...
Prints the overlay path. Everything is regenerated from /repo's current working tree on every call.
"""
import json, os, re, shutil, subprocess, sys

REPO = os.environ.get("VERIF_REPO", "/repo")
VERIF = os.path.dirname(os.path.dirname(os.path.abspath(__file__)))
SRC = os.path.join(VERIF, "harness", "overlay")

# file -> list of (old import path, new import path); applied to the CURRENT working-tree content
REWRITE_ALWAYS = {
    "pkg/dynamic/informer/informer.go": [("k8s.io/client-go/tools/cache", "metacontroller/pkg/internal/verif/vcache")],
}
# additional rewrites for scheduler-visible locks / tickers (C17b, C18, -race passes)
REWRITE_SYNC = {
    "pkg/dynamic/informer/informer.go": [("time", "metacontroller/pkg/internal/verif/vtime"), ("sync", "metacontroller/pkg/internal/verif/vsync")],
    "pkg/dynamic/informer/factory.go": [("sync", "metacontroller/pkg/internal/verif/vsync")],
}


def rewrite_imports(text, pairs):
    for old, new in pairs:
        # plain or aliased import line inside an import block or single import
        pat = re.compile(r'^(\s*(?:import\s+)?)((?:[A-Za-z_][A-Za-z0-9_]*\s+)?)"%s"\s*$' % re.escape(old), re.M)

        def sub(m):
            alias = m.group(2).strip()
            if not alias:
                alias = old.rsplit("/", 1)[-1]
            return '%s%s "%s"' % (m.group(1), alias, new)

        text, n = pat.subn(sub, text)
        if n == 0:
            raise SystemExit("mkoverlay: import %r not found (file changed?)" % old)
    return text


def main():
    args = sys.argv[1:]
    tag = args.pop(0)
    want_sync = False
    patches = []
    while args:
        a = args.pop(0)
        if a == "--rewrite-sync":
            want_sync = True
        elif a == "--patch":
            patches.append(os.path.abspath(args.pop(0)))
        else:
            raise SystemExit("unknown arg " + a)
    out = os.path.join(VERIF, "build", tag)
    shutil.rmtree(os.path.join(out, "rewritten"), ignore_errors=True)
    shutil.rmtree(os.path.join(out, "patched"), ignore_errors=True)
    os.makedirs(os.path.join(out, "rewritten"), exist_ok=True)
    replace = {}
    # 1. harness tree
    for root, _, files in os.walk(SRC):
        for f in files:
            if not f.endswith(".go"):
                continue
            p = os.path.join(root, f)
            rel = os.path.relpath(p, SRC)
            replace[os.path.join(REPO, rel)] = p
    # 2. patches (mutants / candidate fixes) applied to copies of the working tree
    patched = {}
    if patches:
        pdir = os.path.join(out, "patched")
        os.makedirs(pdir, exist_ok=True)
        for pf in patches:
            files = re.findall(r'^\+\+\+ (?:b/)?(\S+)', open(pf).read(), re.M)
            for rel in files:
                dst = os.path.join(pdir, rel)
                if rel not in patched:
                    os.makedirs(os.path.dirname(dst), exist_ok=True)
                    src = os.path.join(REPO, rel)
                    if os.path.exists(src):
                        shutil.copy(src, dst)
                    patched[rel] = dst
            r = subprocess.run(["patch", "-p1", "-s", "--no-backup-if-mismatch", "-d", pdir, "-i", pf], capture_output=True, text=True)
            if r.returncode != 0:
                raise SystemExit("mkoverlay: patch %s does not apply: %s%s" % (pf, r.stdout, r.stderr))
        for rel, dst in patched.items():
            replace[os.path.join(REPO, rel)] = dst
    # 3. import rewrites on the (possibly patched) current content
    rw = {k: list(v) for k, v in REWRITE_ALWAYS.items()}
    if want_sync:
        for k, v in REWRITE_SYNC.items():
            rw.setdefault(k, []).extend(v)
    for rel, pairs in rw.items():
        src = patched.get(rel, os.path.join(REPO, rel))
        text = rewrite_imports(open(src).read(), pairs)
        dst = os.path.join(out, "rewritten", rel)
        os.makedirs(os.path.dirname(dst), exist_ok=True)
        open(dst, "w").write(text)
        replace[os.path.join(REPO, rel)] = dst
    # 4. module file copies (GOFLAGS=-mod=mod must never touch /repo/go.mod)
    shutil.copy(os.path.join(REPO, "go.mod"), os.path.join(out, "alt.mod"))
    shutil.copy(os.path.join(REPO, "go.sum"), os.path.join(out, "alt.sum"))
    ov = os.path.join(out, "overlay.json")
    json.dump({"Replace": replace}, open(ov, "w"), indent=1)
    print(ov)


if __name__ == "__main__":
    main()
