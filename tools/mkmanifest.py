#!/usr/bin/env python3
"""Regenerate MANIFEST.json from tools/checks.py (+ tools/manifest_text.py)."""
import json, os, sys
sys.path.insert(0, os.path.dirname(os.path.abspath(__file__)))
from checks import CHECKS
from manifest_text import TEXT, NOT_APPLICABLE, NOTES

V = os.path.dirname(os.path.dirname(os.path.abspath(__file__)))
checks = []
for cid in sorted(CHECKS):
    c = CHECKS[cid]
    t = TEXT[cid]
    checks.append(dict(
        property_id=cid,
        quick_cmd="bin/check %s quick" % cid,
        thorough_cmd="bin/check %s thorough" % cid,
        evidence_file="/verif/evidence/%s.json" % cid,
        replay_cmd_template="cat {path}",
        engine="mc",
        level_claimed=dict(category=c["level"], text=t["level"], design_ref=t.get("design", "DESIGN.md §4 " + cid)),
        level_note=t["note"],
        technique=t["technique"],
    ))
m = dict(
    version=1,
    setup_cmd="bin/setup",
    hooks=dict(guard="verif",
               enable="go test -tags verif -overlay /verif/build/<check>/overlay.json -modfile /verif/build/<check>/alt.mod (overlay-only: no source hooks in /repo)",
               baseline_off_cmd="cd /repo && GOFLAGS=-mod=mod GOPROXY=off go test -json -vet=off -count=1 -timeout 25m ./...",
               source_commits=[], add_only=True),
    engines=[dict(name="mc", path="/verif/harness/overlay/pkg/internal/verif", serves_properties=sorted(CHECKS),
                  kind_free_text="hand-written explicit-state / bounded-exhaustive explorer over the real code: sim API server + controlled informers + scripted hooks; E1 odometer enumeration, E2 BFS, E3 fault/crash enumeration, E4 cooperative scheduler")],
    checks=checks,
    not_applicable=NOT_APPLICABLE(sorted(CHECKS)),
    notes=NOTES,
)
json.dump(m, open(os.path.join(V, "MANIFEST.json"), "w"), indent=1)
print("MANIFEST.json: %d checks, %d not_applicable" % (len(checks), len(m["not_applicable"])))
