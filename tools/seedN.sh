#!/bin/bash
# tools/seedN.sh CNN <round-dir-suffix: 2|3> <seed-suffix: b|c> : confirm a seeded change of a later round and run the property's quick check against it
id=$1; n=$2; suf=$3
python3 /verif/tools/verify_seed.py $id /tmp/seed$n/$id /tmp/wt$n/$id $suf | python3 -c 'import json,sys; m=json.load(sys.stdin); print({k:m[k] for k in ("suite_with_change","demo_with_change","demo_without_change","confirmed")})'
if [ -f /verif/seeded/${id}${suf}/patch.diff ]; then
  /verif/bin/check $id quick --patch /verif/seeded/${id}${suf}/patch.diff --tag seed$n$id 2>&1 | grep -v "^WARNING\|KNOWN-FINDING" | cut -c1-330 | tail -6
fi
