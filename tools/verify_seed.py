#!/usr/bin/env python3
"""verify_seed.py <ID> [<seed-dir> [<agent-worktree> [<suffix>]]]   (suffix: "b" for a second seeded change of a property)

Independently confirm a seeded change before keeping it (brief: "keep a change only after you have
confirmed all of that yourself in a scratch worktree"):
  1. fresh scratch worktree of /repo HEAD under /tmp/vs/<ID>; git apply patch.diff
  2. go build ./... and the full existing suite must pass with the change
  3. copy the demonstration (_test.go files the agent left untracked in its worktree), run it: must FAIL
  4. git apply -R patch.diff; run the demonstration again: must PASS
  5. write /verif/seeded/<ID>/{patch.diff, demo/<rel paths>, NOTES.md, meta.json}; remove the worktree
"""
import json, os, re, shutil, subprocess, sys

ID = sys.argv[1]
seed = sys.argv[2] if len(sys.argv) > 2 else "/tmp/seed/" + ID
wt_agent = sys.argv[3] if len(sys.argv) > 3 else "/tmp/wt/" + ID
SUFFIX = sys.argv[4] if len(sys.argv) > 4 else ""
wt = "/tmp/vs/" + ID + SUFFIX
env = dict(os.environ, GOFLAGS="-mod=mod", GOPROXY="off", GOSUMDB="off", GOTOOLCHAIN="local")


def sh(cmd, cwd=None, ok=None):
    r = subprocess.run(cmd, shell=True, cwd=cwd, env=env, capture_output=True, text=True)
    return r.returncode, (r.stdout + r.stderr)


os.makedirs("/tmp/vs", exist_ok=True)
sh("git -C /repo worktree remove --force %s" % wt)
rc, out = sh("git -C /repo worktree add --detach %s HEAD" % wt)
assert rc == 0, out
meta = dict(property=ID, ran=[])
try:
    rc, out = sh("git apply %s/patch.diff" % seed, cwd=wt)
    assert rc == 0, "patch does not apply: " + out
    rc, out = sh("go build ./... && go test -vet=off -count=1 ./... 2>&1 | tail -40", cwd=wt)
    fails = [l for l in out.splitlines() if l.startswith("FAIL") or l.startswith("--- FAIL")]
    meta["suite_with_change"] = "pass" if rc == 0 and not fails else "FAIL"
    meta["ran"].append("go build ./... && go test -vet=off -count=1 ./...  (with the change): " + meta["suite_with_change"])
    if meta["suite_with_change"] != "pass":
        print(out[-3000:])
    # demo files
    rc, out = sh("git status --short --untracked-files=all", cwd=wt_agent)
    demos = [l[3:].strip() for l in out.splitlines() if l.startswith("??") and l.strip().endswith(".go")]
    pkgs, names = set(), []
    for d in demos:
        os.makedirs(os.path.dirname(os.path.join(wt, d)), exist_ok=True)
        shutil.copy(os.path.join(wt_agent, d), os.path.join(wt, d))
        pkgs.add("./" + os.path.dirname(d))
        names += re.findall(r'^func (Test\w+)\(', open(os.path.join(wt_agent, d)).read(), re.M)
    cmd = "go test -vet=off -count=1 -run '^(%s)$' %s 2>&1 | tail -60" % ("|".join(names), " ".join(sorted(pkgs)))
    rc, out = sh(cmd, cwd=wt)
    failed = "--- FAIL" in out or "FAIL\t" in out or "panic:" in out
    meta["demo_with_change"] = "fails" if failed else "PASSES(unexpected)"
    meta["demo_output_with_change"] = out[-1500:]
    meta["ran"].append(cmd + "  (with the change): " + meta["demo_with_change"])
    rc, out2 = sh("git apply -R %s/patch.diff" % seed, cwd=wt)
    assert rc == 0, out2
    rc, out = sh(cmd, cwd=wt)
    failed = "--- FAIL" in out or "FAIL\t" in out or "panic:" in out or "build failed" in out
    meta["demo_without_change"] = "passes" if not failed else "FAILS(unexpected)"
    meta["ran"].append(cmd + "  (without the change): " + meta["demo_without_change"])
    if failed:
        print(out[-3000:])
    meta["confirmed"] = (meta["suite_with_change"] == "pass" and meta["demo_with_change"] == "fails" and meta["demo_without_change"] == "passes")
    dst = os.path.join("/verif/seeded", ID + SUFFIX)
    if meta["confirmed"]:
        shutil.rmtree(dst, ignore_errors=True)
        os.makedirs(os.path.join(dst, "demo"), exist_ok=True)
        shutil.copy(os.path.join(seed, "patch.diff"), dst)
        if os.path.exists(os.path.join(seed, "NOTES.md")):
            shutil.copy(os.path.join(seed, "NOTES.md"), dst)
        for d in demos:
            os.makedirs(os.path.dirname(os.path.join(dst, "demo", d)), exist_ok=True)
            # keep the demo out of any go tooling that walks /verif: store with a .txt suffix
            shutil.copy(os.path.join(wt_agent, d), os.path.join(dst, "demo", d + ".txt"))
        meta["demo_files"] = demos
        json.dump(meta, open(os.path.join(dst, "meta.json"), "w"), indent=1)
    print(json.dumps({k: v for k, v in meta.items() if k != "demo_output_with_change"}, indent=1))
finally:
    sh("git -C /repo worktree remove --force %s" % wt)
