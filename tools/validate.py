#!/usr/bin/env python3
import json, sys, glob, jsonschema
jsonschema.validate(json.load(open('/verif/MANIFEST.json')), json.load(open('/root/.vp/MANIFEST.schema.json')))
print('manifest valid')
es = json.load(open('/root/.vp/EVIDENCE.schema.json'))
for f in sorted(glob.glob('/verif/evidence/*.json')):
    jsonschema.validate(json.load(open(f)), es)
    print('evidence valid', f)
