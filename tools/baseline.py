#!/usr/bin/env python3
"""Run the repository's baseline suite (guard off) and compare with /root/.vp/BASELINE.json."""
import json, os, subprocess, sys
env = dict(os.environ, GOFLAGS="-mod=mod", GOPROXY="off", GOSUMDB="off", GOTOOLCHAIN="local")
repo = sys.argv[1] if len(sys.argv) > 1 else "/repo"
r = subprocess.run("go test -json -vet=off -count=1 -timeout 25m ./...", shell=True, cwd=repo, env=env, capture_output=True, text=True)
res = {}
for l in r.stdout.splitlines():
    try:
        e = json.loads(l)
    except Exception:
        continue
    if e.get("Test") and e.get("Action") in ("pass", "fail", "skip"):
        res[e["Package"] + "::" + e["Test"]] = e["Action"]
base = json.load(open("/root/.vp/BASELINE.json"))["stable_pass"]
missing = [t for t in base if res.get(t) != "pass"]
print("baseline: %d/%d stable tests pass; failing/missing: %s" % (len(base) - len(missing), len(base), missing[:10]))
sys.exit(1 if missing else 0)
