#!/usr/bin/env python3
"""mkmutant.py <name> <relfile> <old> <new> [<relfile2> <old2> <new2> ...] -> mutants/<name>.patch (unified diff against /repo)"""
import sys, os, difflib
name = sys.argv[1]
args = sys.argv[2:]
out = []
for i in range(0, len(args), 3):
    rel, old, new = args[i:i+3]
    src = open(os.path.join('/repo', rel)).read()
    if src.count(old) != 1:
        raise SystemExit("%s: pattern occurs %d times" % (rel, src.count(old)))
    dst = src.replace(old, new)
    out += list(difflib.unified_diff(src.splitlines(True), dst.splitlines(True), 'a/' + rel, 'b/' + rel))
open(os.path.join(os.path.dirname(os.path.dirname(os.path.abspath(__file__))), 'mutants', name + '.patch'), 'w').write(''.join(out))
print(''.join(out))
