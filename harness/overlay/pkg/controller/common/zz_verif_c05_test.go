//go:build verif

package common

import (
	"encoding/json"
	"fmt"
	"reflect"
	"sort"
	"strings"
	"testing"

	"k8s.io/apimachinery/pkg/apis/meta/v1/unstructured"
	"k8s.io/apimachinery/pkg/runtime"

	dynamicapply "metacontroller/pkg/dynamic/apply"
	"metacontroller/pkg/internal/verif/mc"
)

// C05: apply is a three-way merge that never clobbers what it does not own (DESIGN §4 C05).
// Bounded-exhaustive enumeration of JSON triples in focused families, each enumerated completely;
// oracle = reference of the documented convention + laws (containment/removal/preservation via the
// reference, idempotence, purity, totality).

type jv = interface{}
type jm = map[string]interface{}
type jl = []interface{}

const absent = "\x00absent"

// ---------------------------------------------------------------------------------------------
// Reference of the documented convention (docs/src/api/apply.md). In-domain: desired and lastApplied
// contain no nulls (null = "no opinion" is left to the law checks), list-map keys are unique.

var refMergeKeys = []string{"containerPort", "port", "mountPath", "name", "uid", "ip", "path"}

type clash struct{ msg string }

func (c *clash) Error() string { return c.msg }

func refDetect(lists ...jl) string {
	var common map[string]bool
	for _, l := range lists {
		for _, it := range l {
			m, ok := it.(jm)
			if !ok {
				return ""
			}
			if common == nil {
				common = map[string]bool{}
				for k := range m {
					common[k] = true
				}
				continue
			}
			for k := range common {
				if _, ok := m[k]; !ok {
					delete(common, k)
				}
			}
		}
	}
	for _, k := range refMergeKeys {
		if common[k] {
			return k
		}
	}
	return ""
}

func keyStr(v jv) string {
	if s, ok := v.(string); ok {
		return s
	}
	return fmt.Sprintf("%v", v)
}

// refMerge: des is the (present, non-null) desired value for this position.
func refMerge(path string, dest, last, des jv) (jv, error) {
	switch d := dest.(type) {
	case jm:
		dm, ok := des.(jm)
		if !ok {
			return nil, &clash{fmt.Sprintf("desired%s is %T, observed is an object", path, des)}
		}
		lm, _ := last.(jm)
		return refMergeObject(path, d, lm, dm)
	case jl:
		dl, ok := des.(jl)
		if !ok {
			return nil, &clash{fmt.Sprintf("desired%s is %T, observed is a list", path, des)}
		}
		ll, _ := last.(jl)
		key := refDetect(d, ll, dl)
		if key == "" {
			return runtime.DeepCopyJSONValue(des), nil
		}
		toMap := func(l jl) jm {
			m := jm{}
			for _, it := range l {
				m[keyStr(it.(jm)[key])] = it
			}
			return m
		}
		destMap, lastMap, desMap := toMap(d), toMap(ll), toMap(dl)
		merged, err := refMergeObject(path, destMap, lastMap, desMap)
		if err != nil {
			return nil, err
		}
		mm := merged.(jm)
		out := jl{}
		added := map[string]bool{}
		for _, it := range d {
			k := keyStr(it.(jm)[key])
			if v, ok := mm[k]; ok && !added[k] {
				out = append(out, v)
				added[k] = true
			}
		}
		for _, it := range dl {
			k := keyStr(it.(jm)[key])
			if !added[k] {
				out = append(out, mm[k])
				added[k] = true
			}
		}
		return out, nil
	default:
		return runtime.DeepCopyJSONValue(des), nil
	}
}

func refMergeObject(path string, dest, last, des jm) (jv, error) {
	out := jm{}
	for k, v := range dest {
		out[k] = runtime.DeepCopyJSONValue(v)
	}
	for k := range last {
		if _, still := des[k]; !still {
			delete(out, k)
		}
	}
	for k, v := range des {
		var lv jv
		if last != nil {
			lv = last[k]
		}
		r, err := refMerge(path+"."+k, out[k], lv, v)
		if err != nil {
			return nil, err
		}
		out[k] = r
	}
	return out, nil
}

func hasNull(v jv) bool {
	switch t := v.(type) {
	case nil:
		return true
	case jm:
		for _, x := range t {
			if hasNull(x) {
				return true
			}
		}
	case jl:
		for _, x := range t {
			if hasNull(x) {
				return true
			}
		}
	}
	return false
}

// dupKeys reports list-maps with duplicate merge-key values anywhere (out of the statement's domain).
func dupKeys(vs ...jv) bool {
	var walk func(v jv) bool
	walk = func(v jv) bool {
		switch t := v.(type) {
		case jm:
			for _, x := range t {
				if walk(x) {
					return true
				}
			}
		case jl:
			if k := refDetect(t); k != "" {
				seen := map[string]bool{}
				for _, it := range t {
					s := keyStr(it.(jm)[k])
					if seen[s] {
						return true
					}
					seen[s] = true
				}
			}
			for _, x := range t {
				if walk(x) {
					return true
				}
			}
		}
		return false
	}
	for _, v := range vs {
		if walk(v) {
			return true
		}
	}
	return false
}

func canon(v jv) string {
	b, _ := json.Marshal(v)
	return string(b)
}

// ---------------------------------------------------------------------------------------------
// One triple.

type c05Stats struct {
	r *mc.Report
}

func wrap(v jv) jm {
	if s, ok := v.(string); ok && s == absent {
		return jm{}
	}
	return jm{"k": v}
}

func (st *c05Stats) triple(family string, o, l, d jv, sample bool) {
	r := st.r
	obs, last, des := wrap(o), wrap(l), wrap(d)
	var lastArg jm = last
	if s, ok := l.(string); ok && s == absent {
		lastArg = nil
	}
	inDomain := !hasNull(last) && !hasNull(des) && !dupKeys(obs, last, des)
	r.EvalDistinct(inDomain && len(des) > 0 && len(obs) > 0)
	fo, fl, fd := canon(obs), canon(lastArg), canon(des)
	desc := func() interface{} {
		return jm{"family": family, "observed": obs, "lastApplied": lastArg, "desired": des}
	}
	if sample {
		r.Sample(desc())
	}
	var res jm
	var err error
	p, stack := mc.Recover(func() { res, err = dynamicapply.Merge(obs, lastArg, des) })
	if p != nil {
		r.Violate("C05:totality:panic", fmt.Sprintf("Merge panicked: %v\n%s", p, stack), desc())
		r.Outcome("panic")
		return
	}
	r.Clause("totality")
	if canon(obs) != fo || canon(lastArg) != fl || canon(des) != fd {
		r.Violate("C05:purity", "Merge mutated one of its inputs", desc())
	}
	r.Clause("purity")
	if inDomain {
		want, werr := refMerge("", obs, lastArg, des)
		switch {
		case werr != nil && err == nil:
			r.Outcome("clash")
			r.Violate("C05:type-clash-silently-dropped:"+clashKind(obs["k"], des["k"]), fmt.Sprintf("type clash (%v) not reported; result %s", werr, canon(res)), desc())
			r.Clause("containment")
		case werr != nil:
			r.Outcome("clash")
			r.Clause("containment")
		case err != nil:
			r.Outcome("error")
			r.Violate("C05:spurious-error", fmt.Sprintf("Merge failed on a well-typed triple: %v", err), desc())
		default:
			r.Outcome("merged")
			r.Clause("reference")
			if canon(res) != canon(want) {
				r.Violate("C05:differs-from-convention:"+family, fmt.Sprintf("result %s, documented convention gives %s", canon(res), canon(want)), desc())
			}
		}
	} else {
		r.Outcome("out-of-domain(null/duplicate keys): laws only")
	}
	if err == nil {
		// idempotence: Merge(r, d, d) == r
		var res2 jm
		var err2 error
		p, _ := mc.Recover(func() { res2, err2 = dynamicapply.Merge(res, des, des) })
		if p != nil {
			r.Violate("C05:totality:panic-on-reapply", fmt.Sprintf("re-apply panicked: %v", p), desc())
		} else if inDomain {
			r.Clause("idempotence")
			if err2 != nil || canon(res2) != canon(res) {
				r.Violate("C05:idempotence:"+family, fmt.Sprintf("re-applying the same desired state changed the result: %s -> %s (err %v)", canon(res), canon(res2), err2), desc())
			}
		}
	}
}

func clashKind(o, d jv) string {
	t := func(v jv) string {
		switch v.(type) {
		case jm:
			return "map"
		case jl:
			return "list"
		case nil:
			return "null"
		}
		return "scalar"
	}
	return "observed-" + t(o) + "/desired-" + t(d)
}

// ---------------------------------------------------------------------------------------------
// Universes.

// universe V(depth) over the given keys per level (keys[0] = outermost map level).
func universe(keys [][]string) []jv {
	base := []jv{int64(1), int64(2), nil}
	if len(keys) == 0 {
		return base
	}
	inner := universe(keys[1:])
	out := append([]jv{}, base...)
	ks := keys[0]
	opts := len(inner) + 1
	total := 1
	for range ks {
		total *= opts
	}
	for i := 0; i < total; i++ {
		m := jm{}
		x := i
		for _, k := range ks {
			c := x % opts
			x /= opts
			if c > 0 {
				m[k] = inner[c-1]
			}
		}
		out = append(out, m)
	}
	return out
}

func listUniverse(key string, maxLen int) []jv {
	out := []jv{nil, int64(1), jm{"a": int64(1)}}
	// plain scalar lists of length <= 2
	out = append(out, jl{}, jl{int64(1)}, jl{int64(2)}, jl{int64(1), int64(1)}, jl{int64(1), int64(2)}, jl{int64(2), int64(1)}, jl{int64(2), int64(2)})
	ids := []string{"p", "q", "r"}
	var rec func(cur jl, used map[string]bool)
	rec = func(cur jl, used map[string]bool) {
		if len(cur) > 0 {
			out = append(out, append(jl{}, cur...))
		}
		if len(cur) == maxLen {
			return
		}
		for _, id := range ids {
			if used[id] {
				continue
			}
			used[id] = true
			for payload := 0; payload < 3; payload++ {
				it := jm{key: id}
				if payload > 0 {
					it["x"] = int64(payload)
				}
				rec(append(cur, it), used)
			}
			used[id] = false
		}
	}
	rec(jl{}, map[string]bool{})
	return out
}

func cube(st *c05Stats, family string, u []jv) {
	vals := append([]jv{absent}, u...)
	n := len(vals)
	total := n * n * n
	idx := 0
	shard, of := mc.Shard()
	for a := 0; a < n; a++ {
		for b := 0; b < n; b++ {
			if (a*n+b)%of != shard {
				idx += n
				continue
			}
			for c := 0; c < n; c++ {
				st.triple(family, runtime.DeepCopyJSONValue(vals[a]), runtime.DeepCopyJSONValue(vals[b]), runtime.DeepCopyJSONValue(vals[c]), idx%(total/3+1) == 7)
				idx++
			}
		}
	}
	st.r.Infof("%s: universe %d values, %d triples (this shard: 1/%d of them)", family, n, total, of)
}

func TestVerifC05(t *testing.T) {
	r := mc.NewReport("C05", "merge")
	r.DeclareClauses("totality", "purity", "reference", "containment", "idempotence")
	st := &c05Stats{r}
	// F1 maps / scalars
	if mc.Thorough() {
		cube(st, "F1:maps{a,b}^2", universe([][]string{{"a", "b"}, {"a", "b"}}))
	} else {
		cube(st, "F1:maps{a,b}x{a}", universe([][]string{{"a", "b"}, {"a"}}))
	}
	// F2 lists under every conventional key and under none
	maxLen := 2
	if mc.Thorough() {
		maxLen = 3
	}
	for _, key := range append(append([]string{}, refMergeKeys...), "id") {
		if !mc.Thorough() && key != "name" && key != "port" && key != "id" {
			// quick tier: three representative keys get the full cube; the others a reduced one
			cube(st, "F2:lists["+key+"]", listUniverse(key, 1))
			continue
		}
		cube(st, "F2:lists["+key+"]", listUniverse(key, maxLen))
	}
	// F3 two conventional keys per item: the documented precedence decides
	for i, k1 := range refMergeKeys {
		for _, k2 := range refMergeKeys[i+1:] {
			var u []jv
			items := []jm{}
			for _, v1 := range []string{"p", "q"} {
				for _, v2 := range []string{"P", "Q"} {
					for payload := 0; payload < 2; payload++ {
						it := jm{k1: v1, k2: v2}
						if payload > 0 {
							it["x"] = int64(payload)
						}
						items = append(items, it)
					}
				}
			}
			for _, a := range items {
				u = append(u, jl{a})
				if mc.Thorough() {
					for _, b := range items {
						u = append(u, jl{a, b})
					}
				}
			}
			cube(st, "F3:two-keys["+k1+","+k2+"]", u)
		}
	}
	r.Write()

	// F4 ApplyUpdate
	r2 := mc.NewReport("C05", "applyupdate")
	r2.DeclareClauses("system-metadata", "status", "last-applied", "no-write-on-reapply", "purity", "totality")
	c05ApplyUpdate(r2)
	r2.Write()
	_ = sort.Strings
	_ = strings.Join
}

// ---------------------------------------------------------------------------------------------
// F4: ApplyUpdate wraps Merge with system-metadata / status reverts and the last-applied record.

var sysFields = []string{"selfLink", "uid", "resourceVersion", "generation", "creationTimestamp", "deletionTimestamp", "deletionGracePeriodSeconds"}

func c05ApplyUpdate(r *mc.Report) {
	specs := []jv{absent, jm{"a": int64(1)}, jm{"a": int64(2), "b": jm{"c": int64(1)}}, jm{"l": jl{jm{"name": "p", "x": int64(1)}, jm{"name": "f"}}}}
	statuses := []jv{absent, jm{"s": int64(1)}, jm{"s": int64(2)}}
	idx := 0
	// observed sys-field presence mask x desired sys-field presence mask (each field: absent / present with a differing value)
	for om := 0; om < 1<<len(sysFields); om += 5 { // stride keeps the product small but hits every field both ways
		for dm := 0; dm < 1<<len(sysFields); dm += 3 {
			for _, ospec := range specs {
				for _, dspec := range specs {
					for _, ost := range statuses {
						for _, dst := range statuses {
							for smuggle := 0; smuggle < 2; smuggle++ {
								idx++
								if !mc.Mine(idx) {
									continue
								}
								c05OneApplyUpdate(r, idx, om, dm, ospec, dspec, ost, dst, smuggle == 1)
							}
						}
					}
				}
			}
		}
	}
}

func c05OneApplyUpdate(r *mc.Report, idx, om, dm int, ospec, dspec, ost, dst jv, smuggle bool) {
	mk := func(mask int, val string, spec, st jv, labels jm) *unstructured.Unstructured {
		md := jm{"name": "c", "namespace": "n1"}
		for i, f := range sysFields {
			if mask&(1<<i) != 0 {
				if f == "generation" || f == "deletionGracePeriodSeconds" {
					md[f] = int64(len(val))
				} else {
					md[f] = val + "-" + f
				}
			}
		}
		if labels != nil {
			md["labels"] = labels
		}
		o := jm{"apiVersion": "v1", "kind": "Leaf", "metadata": md}
		if s, ok := spec.(string); !ok || s != absent {
			o["spec"] = runtime.DeepCopyJSONValue(spec)
		}
		if s, ok := st.(string); !ok || s != absent {
			o["status"] = runtime.DeepCopyJSONValue(st)
		}
		return &unstructured.Unstructured{Object: o}
	}
	// the observed object was last applied with `prev`
	prev := mk(0, "x", specs0(ospec), absent, jm{"mine": "1"})
	observed := mk(om, "obs", ospec, ost, jm{"mine": "1", "theirs": "2"})
	if err := dynamicapply.SetLastApplied(observed, prev.UnstructuredContent()); err != nil {
		panic(err)
	}
	observed.SetAnnotations(mergeStr(observed.GetAnnotations(), map[string]string{"foreign": "ann"}))
	desired := mk(dm, "desired", dspec, dst, jm{"mine": "2"})
	if smuggle {
		desired.SetAnnotations(map[string]string{dynamicapply.LastAppliedAnnotation: `{"smuggled":true}`, "own": "a"})
	}
	desc := jm{"observed": observed.Object, "desired": runtime.DeepCopyJSON(desired.Object)}
	fo := canon(observed.Object)
	dWant := runtime.DeepCopyJSON(desired.Object)
	if anns, ok, _ := unstructured.NestedMap(dWant, "metadata", "annotations"); ok {
		delete(anns, dynamicapply.LastAppliedAnnotation) // documented: stripped from desired
		_ = unstructured.SetNestedMap(dWant, anns, "metadata", "annotations")
	}
	r.EvalDistinct(true)
	if idx%4001 == 0 {
		r.Sample(desc)
	}
	var res *unstructured.Unstructured
	var err error
	p, stack := mc.Recover(func() { res, err = ApplyUpdate(observed, desired) })
	if p != nil {
		r.Violate("C05:applyupdate:panic", fmt.Sprintf("ApplyUpdate panicked: %v\n%s", p, stack), desc)
		return
	}
	r.Clause("totality")
	if canon(observed.Object) != fo {
		r.Violate("C05:applyupdate:observed-mutated", "ApplyUpdate mutated the observed (cached) object", desc)
	}
	if canon(desired.Object) != canon(dWant) {
		r.Violate("C05:applyupdate:desired-mutated", fmt.Sprintf("desired changed beyond the documented stripping of the last-applied annotation: %s", canon(desired.Object)), desc)
	}
	r.Clause("purity")
	if err != nil {
		r.Outcome("error")
		// type clashes between spec shapes are legitimate errors
		return
	}
	r.Outcome("merged")
	// system metadata exactly as observed
	for _, f := range sysFields {
		ov, ook, _ := unstructured.NestedFieldNoCopy(observed.Object, "metadata", f)
		rv, rok, _ := unstructured.NestedFieldNoCopy(res.Object, "metadata", f)
		if ook != rok || !reflect.DeepEqual(ov, rv) {
			r.Violate("C05:applyupdate:system-metadata:"+f, fmt.Sprintf("metadata.%s is %v (present=%v), observed has %v (present=%v)", f, rv, rok, ov, ook), desc)
		}
	}
	r.Clause("system-metadata")
	if !reflect.DeepEqual(res.Object["status"], observed.Object["status"]) {
		r.Violate("C05:applyupdate:status", fmt.Sprintf("status %v, observed %v", res.Object["status"], observed.Object["status"]), desc)
	}
	r.Clause("status")
	la, lerr := dynamicapply.GetLastApplied(res)
	if lerr != nil || canon(la) != canon(dWant) {
		r.Violate("C05:applyupdate:last-applied", fmt.Sprintf("last-applied record is %s, want the new desired %s", canon(la), canon(dWant)), desc)
	}
	r.Clause("last-applied")
	// foreign label / annotation preserved, own label updated
	if res.GetLabels()["theirs"] != "2" || res.GetLabels()["mine"] != "2" || res.GetAnnotations()["foreign"] != "ann" {
		r.Violate("C05:applyupdate:preservation", fmt.Sprintf("labels %v annotations-foreign %q", res.GetLabels(), res.GetAnnotations()["foreign"]), desc)
	}
	// re-applying the same desired state to the result: DeepEqual, i.e. the controller issues no write
	res2, err2 := ApplyUpdate(res, desired)
	if err2 != nil || !DeepEqual(res2.UnstructuredContent(), res.UnstructuredContent()) {
		r.Violate("C05:applyupdate:write-on-reapply", fmt.Sprintf("re-apply is not a no-op: %v\n %s\n %s", err2, canon(res.Object), canon(objOf(res2))), desc)
	}
	r.Clause("no-write-on-reapply")
}

func objOf(u *unstructured.Unstructured) jv {
	if u == nil {
		return nil
	}
	return u.Object
}

func specs0(spec jv) jv {
	// what was applied before: a strict sub-object of the observed spec (so something is "ours" and something foreign)
	m, ok := spec.(jm)
	if !ok {
		return absent
	}
	out := jm{}
	for k, v := range m {
		if k == "a" || k == "l" {
			if l, ok := v.(jl); ok {
				out[k] = jl{runtime.DeepCopyJSONValue(l[0])}
			} else {
				out[k] = runtime.DeepCopyJSONValue(v)
			}
		}
	}
	return out
}

func mergeStr(a, b map[string]string) map[string]string {
	out := map[string]string{}
	for k, v := range a {
		out[k] = v
	}
	for k, v := range b {
		out[k] = v
	}
	return out
}
