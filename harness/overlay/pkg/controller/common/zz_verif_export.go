//go:build verif

package common

// VerifResetSSAMemo empties the process-global server-side-apply memo (one world per process at a time).
func VerifResetSSAMemo() {
	cacheLock.Lock()
	defer cacheLock.Unlock()
	lastUpdatedCache = make(map[string]*lastUpdate)
}

// VerifSSAMemoKeys returns the keys currently memoised (sorted order not guaranteed).
func VerifSSAMemoKeys() []string {
	cacheLock.RLock()
	defer cacheLock.RUnlock()
	out := make([]string, 0, len(lastUpdatedCache))
	for k := range lastUpdatedCache {
		out = append(out, k)
	}
	return out
}
