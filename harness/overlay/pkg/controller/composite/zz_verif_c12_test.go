//go:build verif

package composite

import (
	"fmt"
	"net/http"
	"strings"
	"testing"
	"time"

	"metacontroller/pkg/apis/metacontroller/v1alpha1"
	"metacontroller/pkg/internal/verif/kit"
	"metacontroller/pkg/internal/verif/mc"
	"metacontroller/pkg/internal/verif/sim"
	"metacontroller/pkg/internal/verif/vcache"
	"metacontroller/pkg/internal/verif/world"
)

// C12: failures are retried, benign races tolerated, one bad child blocks nothing (DESIGN §4 C12).
// Every request of a rich sync x every error kind, singly (thorough: pairs), hook faults, sticky per-child
// faults; each run goes through the real processNextWorkItem with the recording queue and is then continued
// fault-free to quiescence and compared with the fault-free run.

type c12World struct {
	*cworld
	scenario string
	roll     *rollWorld
	key      string
	kinds    []*sim.Kind
	good     world.HookFunc
	wrap     func(world.HookFunc) world.HookFunc
}

// c12ETag: what ordinary ETag middleware in front of a hook does - the tag is derived from what the answer
// depends on (the hook's own version, the parent's spec and generation, the observed children's names, labels
// and specs), it is set on every answer (also on error pages: the middleware runs before the handler), and a
// request that carries the tag in If-None-Match is answered 304 without running the handler. With a pure hook
// this is sound: requests with the same tag always have the same answer.
var c12Epoch string

func c12ETag(h world.HookFunc) world.HookFunc {
	return func(hc *world.HookCall) (int, http.Header, []byte, error) {
		stable := kit.M{"epoch": c12Epoch, "spec": kit.Get(hc.Parsed, "parent", "spec"), "gen": kit.Get(hc.Parsed, "parent", "metadata", "generation"), "finalizing": hc.Parsed["finalizing"]}
		ch := kit.M{}
		for g, m := range kit.Map(hc.Parsed, "children") {
			for n, o := range m.(kit.M) {
				ch[g+"/"+n] = kit.L{kit.Get(o, "spec"), kit.Get(o, "metadata", "labels")}
			}
		}
		stable["children"] = ch
		tag := `"` + mc.Hash(kit.JSON(stable)) + `"`
		if hc.Header.Get("If-None-Match") == tag {
			return 304, http.Header{"Etag": []string{tag}}, nil, nil
		}
		code, hdr, body, err := h(hc)
		if err != nil {
			return code, hdr, body, err
		}
		if hdr == nil {
			hdr = http.Header{}
		}
		hdr.Set("Etag", tag)
		return code, hdr, body, nil
	}
}

func c12Plain(h world.HookFunc) world.HookFunc { return h }

// mixed scenario: one sync that creates a, updates b in place, recreates c (Widget), deletes d, adopts e,
// releases g, adds the finalizer and writes the status.
func c12Build(scenario string) *c12World {
	if scenario == "rolling" {
		rw := newRollWorld(2, false, "widgets", "RollingInPlace", true, false)
		for i := 0; i < 5; i++ {
			rw.round()
		}
		rw.edit("tpl", "v2")
		rw.round() // first move done; the next sync performs the second move (revision writes + child update)
		return &c12World{cworld: rw.cworld, scenario: scenario, roll: rw, key: rw.key, kinds: []*sim.Kind{kit.Widget}, good: rollHook(kit.Widget, "n1", false), wrap: c12Plain}
	}
	o := ccOpt{parent: kit.Thing, children: []*sim.Kind{kit.Leaf, kit.Widget}, finalize: true, etag: scenario == "mixed-etag",
		methods: map[string]v1alpha1.ChildUpdateMethod{"leafs": v1alpha1.ChildUpdateInPlace, "widgets": v1alpha1.ChildUpdateRecreate}}
	w := newCWorld(o, true)
	x := &c12World{cworld: w, scenario: scenario, key: "n1/p", kinds: []*sim.Kind{kit.Leaf, kit.Widget}, wrap: c12Plain}
	if scenario == "mixed-etag" {
		x.wrap = c12ETag
	}
	p := kit.Obj(kit.Thing, "n1", "p")
	kit.Field(p, "puid", "metadata", "uid")
	kit.Field(p, kit.M{"matchLabels": kit.M{"app": "x"}}, "spec", "selector")
	kit.Field(p, "2", "spec", "v")
	w.Sim.Seed(p)
	child := func(k *sim.Kind, name, v string) kit.M {
		return kit.Labels(kit.Field(kit.Obj(k, "n1", name), v, "spec", "v"), "app", "x")
	}
	desired := func(v string) kit.L {
		return kit.L{child(kit.Leaf, "a", v), child(kit.Leaf, "b", v), child(kit.Widget, "c", v), child(kit.Leaf, "e", v)}
	}
	ver := "1"
	h := x.wrap(world.JSON(func(req map[string]interface{}) interface{} {
		return kit.M{"status": kit.M{"seen": ver}, "children": desired(ver)}
	}))
	w.Hooks.Handle("/cc/sync", h)
	w.Hooks.Handle("/cc/finalize", h)
	// bootstrap with the real create path at v1 (b, c, e, plus d and g which will become undesired / non-matching)
	boot := x.wrap(world.JSON(func(req map[string]interface{}) interface{} {
		return kit.M{"status": kit.M{"seen": "0"}, "children": kit.L{child(kit.Leaf, "b", "1"), child(kit.Widget, "c", "1"), child(kit.Leaf, "d", "1"), child(kit.Leaf, "e", "1"), child(kit.Leaf, "g", "1")}}
	}))
	c12Epoch = "boot"
	w.Hooks.Handle("/cc/sync", boot)
	w.DeliverAll()
	for i := 0; i < 3; i++ {
		if err, pn, _ := w.syncKey(x.key); err != nil || pn != nil {
			panic(fmt.Sprintf("c12 bootstrap: %v %v", err, pn))
		}
		w.DeliverAll()
	}
	// e becomes an orphan, g stops matching, the finalizer is taken away again so that this sync adds it
	w.Sim.Edit(kit.Leaf, "n1", "e", func(o map[string]interface{}) { delete(o["metadata"].(map[string]interface{}), "ownerReferences") })
	w.Sim.Edit(kit.Leaf, "n1", "g", func(o map[string]interface{}) { kit.Labels(o, "app", "y") })
	w.Sim.Edit(kit.Thing, "n1", "p", func(o map[string]interface{}) { delete(o["metadata"].(map[string]interface{}), "finalizers") })
	ver = "2"
	c12Epoch = "main"
	x.good = h
	w.Hooks.Handle("/cc/sync", h)
	w.DeliverAll()
	w.Q.Clear()
	return x
}

func (x *c12World) essence() string {
	var parts []string
	for _, o := range x.Sim.All(nil) {
		e := kit.M{"kind": o["kind"], "name": kit.Name(o), "labels": kit.Get(o, "metadata", "labels"), "spec": o["spec"], "fin": kit.Get(o, "metadata", "finalizers")}
		if o["kind"] == "ControllerRevision" {
			e["children"] = o["children"]
		}
		if o["kind"] == "Thing" {
			e["status"] = o["status"]
		}
		var owners []string
		for _, r := range kit.List(o, "metadata", "ownerReferences") {
			owners = append(owners, fmt.Sprintf("%v/%v/%v", kit.Get(r, "kind"), kit.Get(r, "name"), kit.Get(r, "controller")))
		}
		e["owners"] = owners
		parts = append(parts, kit.JSON(e))
	}
	return canonUIDs(strings.Join(parts, "\n"))
}

// settle continues fault-free to quiescence (the harness is the worker and the watch).
func (x *c12World) settle() (rounds int, ok bool) {
	for rounds = 0; rounds < 25; rounds++ {
		x.DeliverAll()
		x.Sim.GC()
		if x.roll != nil {
			x.roll.fair()
		}
		x.DeliverAll()
		before := x.Sim.Dump(false)
		x.Q.Clear()
		x.Q.Put(x.key)
		x.Sim.ResetLog()
		x.PC.processNextWorkItem()
		writes := 0
		for _, r := range x.Sim.Log {
			if r.Mutating() {
				writes++
			}
		}
		// quiescent: nothing changed, nothing was written, and the sync did not report an error
		if x.Sim.Dump(false) == before && writes == 0 && len(x.Stale()) == 0 && !x.Q.Has("AddRateLimited", x.key) {
			return rounds, true
		}
	}
	return rounds, false
}

type c12Dev struct {
	Scenario string
	Kind     string
	Ident    string
	Ident2   string // thorough: a second, different request faulted in the same sync (same kind)
	Sticky   string // sticky-by-target: every write to this child fails
}

// benign reports whether the statement documents (request, kind) as a tolerated race.
func c12Benign(r *sim.Request, kind string, isChild bool, isParent bool) bool {
	switch kind {
	case "404":
		return (isChild && (r.Verb == "delete" || r.Verb == "update" || r.Verb == "get")) || (isParent && (r.Verb == "get" || r.Verb == "update")) || r.Kind == world.RevisionKind && r.Verb == "get"
	case "409":
		return (isChild && (r.Verb == "create" || r.Verb == "update")) || (isParent && r.Verb == "update")
	case "410":
		// only the RELEASE of a child (g in the mixed scenario) treats Gone like NotFound; an adoption that gets a
		// 410 has failed and must be reported
		return isChild && (r.Verb == "get" || r.Verb == "update") && r.Name == "g"
	}
	return false
}

func fabricate(kind string, r *sim.Request) *sim.Fault {
	switch kind {
	case "404":
		return &sim.Fault{Code: 404, Reason: "NotFound"}
	case "409":
		if r.Verb == "create" {
			return &sim.Fault{Code: 409, Reason: "AlreadyExists"}
		}
		return &sim.Fault{Code: 409, Reason: "Conflict"}
	case "410":
		return &sim.Fault{Code: 410, Reason: "Gone"}
	case "422":
		return &sim.Fault{Code: 422, Reason: "Invalid"}
	case "500":
		return &sim.Fault{Code: 500, Reason: "InternalError"}
	case "403":
		return &sim.Fault{Code: 403, Reason: "Forbidden"}
	case "429":
		return &sim.Fault{Code: 429, Reason: "TooManyRequests"}
	case "server-timeout":
		return &sim.Fault{Code: 504, Reason: "Timeout"}
	case "timeout":
		return &sim.Fault{Transport: true}
	case "lost-response":
		return &sim.Fault{Transport: true, Apply: true}
	}
	panic(kind)
}

var c12RaceBeforeHook bool

// c12DropGone: when the environment really removed an object that the controller does not recreate (it was
// being released or deleted anyway), the fault-free run still has it; leave that object out of the comparison.
func c12DropGone(got, want string, dev c12Dev) (string, string) {
	if dev.Kind != "race:gone" {
		return got, want
	}
	f := strings.Fields(dev.Ident) // "<verb> <resource> <ns>/<name> #n"
	if len(f) < 3 {
		return got, want
	}
	name := f[2][strings.LastIndex(f[2], "/")+1:]
	marker := fmt.Sprintf(`"name":%q`, name)
	has := func(s string) bool {
		for _, l := range strings.Split(s, "\n") {
			if strings.Contains(l, marker) {
				return true
			}
		}
		return false
	}
	if has(got) || !has(want) {
		return got, want
	}
	var out []string
	for _, l := range strings.Split(want, "\n") {
		if !strings.Contains(l, marker) {
			out = append(out, l)
		}
	}
	return got, strings.Join(out, "\n")
}

var c12Kinds = []string{"404", "409", "410", "422", "500", "403", "429", "server-timeout", "timeout", "lost-response"}

func TestVerifC12(t *testing.T) {
	r := mc.NewReport("C12", "composite")
	defer r.Write()
	r.DeclareClauses("no-panic", "error-and-requeue", "forget-on-success", "429-requeue-after", "sticky-others-reconciled", "sticky-status-attempted", "converges-like-fault-free", "benign-race-tolerated")
	idx := 0
	for _, scenario := range []string{"mixed", "rolling", "mixed-etag"} {
		// fault-free reference
		base := c12Build(scenario)
		base.Q.Put(base.key)
		base.Sim.ResetLog()
		hookAt := 0
		base.Hooks.Gate = func(phase string, c *world.HookCall) {
			if phase == "arrive" {
				hookAt = len(base.Sim.Log)
			}
		}
		base.PC.processNextWorkItem()
		base.Hooks.Gate = nil
		ids := identN(base.Sim.Log)
		log := append([]*sim.Request(nil), base.Sim.Log...)
		if _, ok := base.settle(); !ok {
			r.Violate("C12:baseline", "fault-free run of "+scenario+" does not settle", nil)
			continue
		}
		want := base.essence()
		isChild := func(q *sim.Request) bool {
			for _, k := range base.kinds {
				if q.Kind == k {
					return true
				}
			}
			return false
		}
		run := func(dev c12Dev, plan func(x *c12World) func(q *sim.Request) *sim.Fault, hook world.HookFunc, expectErr int, expect429 time.Duration) {
			idx++
			if !mc.MineKey(fmt.Sprintf("%+v", dev)) {
				return
			}
			r.Case(dev, fmt.Sprint(idx), func() []mc.Finding {
				var f []mc.Finding
				bad := func(key, format string, a ...interface{}) {
					f = append(f, mc.Finding{Key: "C12:" + key, Msg: fmt.Sprintf("%+v: ", dev) + fmt.Sprintf(format, a...)})
				}
				x := c12Build(scenario)
				c12RaceBeforeHook = false
				if plan != nil {
					x.Sim.Plan = plan(x)
				}
				if hook != nil {
					x.Hooks.Handle("/cc/sync", x.wrap(hook))
				}
				x.Q.Clear()
				x.Q.Put(x.key)
				x.Sim.ResetLog()
				x.Hooks.Reset()
				fp := vcache.TakeFingerprint()
				p, stack := mc.Recover(func() { x.PC.processNextWorkItem() })
				x.Sim.Plan = nil
				x.Hooks.Handle("/cc/sync", x.good)
				r.Clause("no-panic")
				if p != nil {
					bad("panic", "worker panicked: %v\n%s", p, stack)
					return f
				}
				if e := fp.Verify(); e != nil {
					bad("cache-mutated", "%v", e)
				}
				rate, forget := x.Q.Has("AddRateLimited", x.key), x.Q.Has("Forget", x.key)
				if rate == forget {
					bad("queue-protocol", "AddRateLimited=%v Forget=%v", rate, forget)
				}
				switch expectErr {
				case 1:
					r.Clause("error-and-requeue")
					if !rate || forget {
						bad("failure-not-retried:"+dev.Kind, "a non-benign failure must make the sync report an error and requeue with back-off (AddRateLimited=%v Forget=%v)", rate, forget)
					}
				case -2:
					r.Clause("benign-race-tolerated")
					if c12RaceBeforeHook && len(x.Hooks.Calls) == 0 {
						bad("benign-race-aborts-sync:"+dev.Kind, "the target of a claim-phase request went away / changed just before the request (a documented benign race), and the sync stopped before calling the hook")
					}
					if rate {
						bad("benign-race-reported-as-error:"+dev.Kind, "a documented benign race made the sync report an error (AddRateLimited)")
					}
				case -1:
					r.Clause("forget-on-success")
					if rate {
						bad("spurious-error", "no failure but the sync reported an error")
					}
				}
				if expect429 > 0 {
					r.Clause("429-requeue-after")
					found := false
					for _, op := range x.Q.Ops {
						if op.Op == "AddAfter" && op.Key == x.key && op.Delay == expect429 {
							found = true
						}
					}
					if !found || rate {
						bad("429-not-requeued-after-delay", "hook 429: AddAfter(%v) found=%v, counted as error=%v", expect429, found, rate)
					}
				}
				if dev.Sticky != "" {
					// every other child reached its desired state in that same sync, and the status write was attempted
					r.Clause("sticky-others-reconciled")
					for _, q := range log[hookAt:] {
						if !isChild(q) || !q.Mutating() || q.Name == dev.Sticky {
							continue
						}
						done := false
						for _, g := range x.Sim.Log {
							if g.Kind == q.Kind && g.Name == q.Name && g.Verb == q.Verb && g.Code < 300 && g.Code > 0 {
								done = true
							}
						}
						if !done {
							bad("one-bad-child-blocks-others", "%s %s/%s was not carried out in the sync in which %s kept failing", q.Verb, q.Kind.Resource, q.Name, dev.Sticky)
						}
					}
					r.Clause("sticky-status-attempted")
					st := false
					for _, g := range x.Sim.Log {
						if g.Kind == kit.Thing && g.Verb == "update" && g.Sub == "status" {
							st = true
						}
					}
					if !st {
						bad("status-not-written-after-child-failure", "the parent status write was not attempted")
					}
				}
				// once faults stop, the cluster converges to the same state as the fault-free run
				r.Clause("converges-like-fault-free")
				if _, ok := x.settle(); !ok {
					bad("does-not-settle", "not quiescent 25 rounds after the fault")
				} else if got, want := c12DropGone(x.essence(), want, dev); got != want {
					bad("final-state-differs", "final state differs from the fault-free run:\n--- got\n%s\n--- want\n%s", got, want)
				}
				return f
			})
		}
		// single faults on every request
		for i, q := range log {
			for _, kind := range c12Kinds {
				if (kind == "lost-response" || kind == "409" || kind == "422" || kind == "410") && !q.Mutating() {
					continue // these answers only exist for writes
				}
				id := ids[i]
				parent := q.Kind == kit.Thing
				expect := 1
				if c12Benign(q, kind, isChild(q), parent) {
					expect = 0 // documented benign race: tolerated, nothing asserted about the error
				}
				run(c12Dev{Scenario: scenario, Kind: kind, Ident: id}, func(x *c12World) func(*sim.Request) *sim.Fault {
					seen := map[string]int{}
					return func(g *sim.Request) *sim.Fault {
						gid := g.Ident()
						seen[gid]++
						if fmt.Sprintf("%s#%d", gid, seen[gid]) == id {
							return fabricate(kind, g)
						}
						return nil
					}
				}, nil, expect, 0)
			}
		}
		// real benign races (not fabricated answers): the environment removes / edits the target of a child
		// request just before it arrives, so the 404 / 409 is the server's own answer and the rest of the sync
		// sees a consistent world. The documented benign races are tolerated: the sync goes on (the hook is
		// still called when the race hit the claim phase), and the cluster converges as without the race.
		for i, q := range log {
			if !isChild(q) || !(q.Verb == "get" || q.Verb == "update" || q.Verb == "delete") {
				continue
			}
			for _, kind := range []string{"race:gone", "race:edited"} {
				if kind == "race:edited" && q.Verb != "update" {
					continue
				}
				id, k, beforeHook := ids[i], kind, i < hookAt
				run(c12Dev{Scenario: scenario, Kind: k, Ident: id}, func(x *c12World) func(*sim.Request) *sim.Fault {
					seen := map[string]int{}
					return func(g *sim.Request) *sim.Fault {
						gid := g.Ident()
						seen[gid]++
						if fmt.Sprintf("%s#%d", gid, seen[gid]) == id {
							if k == "race:gone" {
								x.Sim.RemoveLocked(g.Kind, g.NS, g.Name)
							} else {
								x.Sim.EditLocked(g.Kind, g.NS, g.Name, func(o map[string]interface{}) { kit.Ann(o, "touched-by", "someone") })
							}
							g.Pre = x.Sim.GetLocked(g.Kind, g.NS, g.Name)
							if beforeHook {
								c12RaceBeforeHook = true
							}
						}
						return nil
					}
				}, nil, -2, 0)
			}
		}
		// the parent itself is deleted and re-created under the same name (new UID) just before one of the requests
		// that read or write it: a benign race for the old incarnation - no panic, and nothing is written to the
		// newcomer on the strength of what was observed of its predecessor
		if scenario != "rolling" {
			for i, q := range log {
				if q.Kind != kit.Thing {
					continue
				}
				id := ids[i]
				dev := c12Dev{Scenario: scenario, Kind: "race:parent-replaced", Ident: id}
				idx++
				if !mc.MineKey(fmt.Sprintf("%+v", dev)) {
					continue
				}
				r.Case(dev, fmt.Sprint(idx), func() []mc.Finding {
					var f []mc.Finding
					x := c12Build(scenario)
					seen := map[string]int{}
					newUID := ""
					x.Sim.Plan = func(g *sim.Request) *sim.Fault {
						gid := g.Ident()
						seen[gid]++
						if fmt.Sprintf("%s#%d", gid, seen[gid]) == id && newUID == "" {
							old := x.Sim.GetLocked(kit.Thing, "n1", "p")
							x.Sim.RemoveLocked(kit.Thing, "n1", "p")
							np := kit.Obj(kit.Thing, "n1", "p")
							np["spec"] = kit.Copy(kit.M{"s": old["spec"]})["s"]
							kit.Field(np, "puid-2", "metadata", "uid")
							x.Sim.SeedLocked(np)
							newUID = "puid-2"
							g.Pre = x.Sim.GetLocked(kit.Thing, "n1", "p")
						}
						return nil
					}
					x.Q.Clear()
					x.Q.Put(x.key)
					x.Sim.ResetLog()
					p, stack := mc.Recover(func() { x.PC.processNextWorkItem() })
					x.Sim.Plan = nil
					r.Clause("no-panic")
					if p != nil {
						f = append(f, mc.Finding{Key: "C12:panic", Msg: fmt.Sprintf("%+v: worker panicked: %v\n%s", dev, p, stack)})
						return f
					}
					for _, g := range x.Sim.Log {
						if g.Kind == kit.Thing && g.Mutating() && g.Applied && kit.UID(g.Pre) == "puid-2" {
							f = append(f, mc.Finding{Key: "C12:wrote-to-replaced-parent", Msg: fmt.Sprintf("%+v: %s was accepted on the re-created parent (uid puid-2), which this sync never observed", dev, g)})
						}
					}
					return f
				})
			}
		}
		// pairs (thorough): two different requests of the same sync, same kind
		if mc.Thorough() {
			for i := range log {
				for j := i + 1; j < len(log); j++ {
					for _, kind := range []string{"409", "500", "timeout"} {
						id1, id2 := ids[i], ids[j]
						run(c12Dev{Scenario: scenario, Kind: kind, Ident: id1, Ident2: id2}, func(x *c12World) func(*sim.Request) *sim.Fault {
							seen := map[string]int{}
							return func(g *sim.Request) *sim.Fault {
								gid := g.Ident()
								seen[gid]++
								cur := fmt.Sprintf("%s#%d", gid, seen[gid])
								if cur == id1 || cur == id2 {
									return fabricate(kind, g)
								}
								return nil
							}
						}, nil, 0, 0)
					}
				}
			}
		}
		// sticky faults per child
		stickyNames := map[string]bool{}
		for _, q := range log[hookAt:] {
			if isChild(q) && q.Mutating() {
				stickyNames[q.Name] = true
			}
		}
		for _, name := range mc.SortedKeys(stickyNames) {
			for _, kind := range []string{"500", "timeout", "422"} {
				nm := name
				run(c12Dev{Scenario: scenario, Kind: kind, Sticky: nm}, func(x *c12World) func(*sim.Request) *sim.Fault {
					return func(g *sim.Request) *sim.Fault {
						// "one bad child" is about the reconcile phase (after the hook answered); a failing
						// adoption/release aborts the sync before the hook, by design of the claim step
						if isChild(g) && g.Name == nm && g.Mutating() && len(x.Hooks.Calls) > 0 {
							return fabricate(kind, g)
						}
						return nil
					}
				}, nil, 1, 0)
			}
		}
		// a non-benign child failure together with a benign end of the status path (conflict until the client
		// gives up / parent read answers NotFound): the child failure must still be reported
		for _, q := range log[hookAt:] {
			if !isChild(q) || !q.Mutating() {
				continue
			}
			for _, end := range []string{"status-conflict", "status-notfound"} {
				qid, e := q.Ident(), end
				run(c12Dev{Scenario: scenario, Kind: "500+" + e, Ident: qid}, func(x *c12World) func(*sim.Request) *sim.Fault {
					return func(g *sim.Request) *sim.Fault {
						if g.Ident() == qid && len(x.Hooks.Calls) > 0 {
							return fabricate("500", g)
						}
						if g.Kind == kit.Thing && len(x.Hooks.Calls) > 0 {
							if e == "status-conflict" && g.Verb == "update" && g.Sub == "status" {
								return fabricate("409", g)
							}
							if e == "status-notfound" && g.Verb == "get" {
								return fabricate("404", g)
							}
						}
						return nil
					}
				}, nil, 1, 0)
			}
		}
		// hook faults
		valid := func() []byte {
			base.Hooks.Reset()
			return nil
		}
		_ = valid
		hookFault := func(name string, code int, hdr http.Header, body string, transport bool, expectErr int, after time.Duration) {
			run(c12Dev{Scenario: scenario, Kind: "hook:" + name}, nil, func(hc *world.HookCall) (int, http.Header, []byte, error) {
				if transport {
					return 0, nil, nil, fmt.Errorf("dial tcp: connection refused")
				}
				return code, hdr, []byte(body), nil
			}, expectErr, after)
		}
		hookFault("500", 500, nil, "boom", false, 1, 0)
		hookFault("503", 503, nil, "unavailable", false, 1, 0)
		hookFault("refused", 0, nil, "", true, 1, 0)
		if scenario != "mixed-etag" {
			// (a 200 that carries an ETag IS the representation the tag names, garbage or not: a later 304 for it
			// legitimately brings the garbage back - the hook's inconsistency, not metacontroller's)
			hookFault("garbage", 200, nil, "<html>", false, 1, 0)
		}
		hookFault("500-json-error-page", 500, nil, `{"error":"backend unavailable"}`, false, 1, 0)
		hookFault("404-json-error-page", 404, nil, `{"message":"no such route"}`, false, 1, 0)
		hookFault("429-numeric", 429, http.Header{"Retry-After": []string{"7"}}, "", false, -1, 7*time.Second)
		hookFault("429-absent", 429, nil, "", false, -1, 0)
		if scenario == "rolling" {
			// the parallel per-revision calls of a rollout: the 429 answers only the call made for the OLD
			// revision's view of the parent, or only the one for the latest
			for _, which := range []string{"old", "latest"} {
				wh := which
				run(c12Dev{Scenario: scenario, Kind: "hook:429-for-" + wh + "-revision-only"}, nil, func(hc *world.HookCall) (int, http.Header, []byte, error) {
					isOld := kit.Str(hc.Parsed, "parent", "spec", "template", "ver") == "v1"
					if isOld == (wh == "old") {
						return 429, http.Header{"Retry-After": []string{"7"}}, nil, nil
					}
					return base.good(hc)
				}, -1, 7*time.Second)
			}
		}
		// no fault at all: success path
		run(c12Dev{Scenario: scenario, Kind: "none"}, nil, nil, -1, 0)
	}
}
