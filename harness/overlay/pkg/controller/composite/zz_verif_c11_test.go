//go:build verif

package composite

import (
	"fmt"
	"reflect"
	"testing"

	"metacontroller/pkg/internal/verif/kit"
	"metacontroller/pkg/internal/verif/mc"
	"metacontroller/pkg/internal/verif/sim"
	"metacontroller/pkg/internal/verif/vcache"
	"metacontroller/pkg/internal/verif/world"
)

// C11: parent status = hook status + observedGeneration; nothing else is touched (DESIGN §4 C11).

var c11HookStatus = []string{"null", "empty", "flat", "nested", "own-observedGeneration", "conditions"}
var c11Live = []string{"same", "spec-edited", "labels-edited", "recreated", "gone", "status-edited"}
var c11Existing = []string{"absent", "equal", "different", "superset"}
var c11Conflicts = []int{0, 1, 2, 4} // retry.DefaultBackoff gives up after 4 attempts
var c11Faults = []string{"none", "get-500", "put-500", "put-timeout", "put-lost-response"}

type c11Case struct {
	HookStatus string
	Live       string
	Existing   string
	Conflicts  int
	Fault      string
	ChildFails bool
}

func c11Status(kind string) interface{} {
	switch kind {
	case "empty":
		return kit.M{}
	case "flat":
		return kit.M{"a": int64(1)}
	case "nested":
		return kit.M{"a": kit.M{"b": kit.L{int64(1), "x"}}, "c": "d"}
	case "own-observedGeneration":
		return kit.M{"a": int64(1), "observedGeneration": int64(99)}
	case "conditions":
		return kit.M{"conditions": kit.L{kit.M{"type": "Ready", "status": "True"}}}
	}
	return nil
}

func c11Target(kind string, gen int64) kit.M {
	t := kit.M{}
	if st, ok := c11Status(kind).(kit.M); ok {
		t = kit.Copy(st)
	}
	t["observedGeneration"] = gen
	return t
}

func without(o kit.M, drop ...string) kit.M {
	if o == nil {
		return nil
	}
	c := kit.Copy(o)
	delete(c, "status")
	md, _ := c["metadata"].(kit.M)
	for _, d := range drop {
		delete(md, d)
	}
	return c
}

var c11Outcome string

func c11Run(c c11Case) []mc.Finding {
	var f []mc.Finding
	bad := func(key, format string, a ...interface{}) {
		f = append(f, mc.Finding{Key: "C11:" + key, Msg: fmt.Sprintf("%+v: ", c) + fmt.Sprintf(format, a...)})
	}
	w := newCWorld(ccOpt{parent: kit.Thing, children: []*sim.Kind{kit.Leaf}, generateSel: true}, false)
	parent := kit.Obj(kit.Thing, "n1", "p")
	kit.Field(parent, "puid", "metadata", "uid")
	kit.Field(parent, int64(1), "spec", "x")
	kit.Labels(parent, "l", "1")
	kit.Ann(parent, "a", "1")
	kit.Owners(parent, kit.OwnerRef(kit.Other, "boss", "uid-boss", false))
	switch c.Existing {
	case "equal":
		parent["status"] = c11Target(c.HookStatus, 1)
	case "different":
		parent["status"] = kit.M{"old": "x", "observedGeneration": int64(0)}
	case "superset":
		// what an earlier answer left behind: everything the new answer has, and more
		st := c11Target(c.HookStatus, 1)
		st["left-over"] = "x"
		if conds, ok := st["conditions"].(kit.L); ok {
			st["conditions"] = append(append(kit.L{}, conds...), kit.M{"type": "Old", "status": "True"})
		}
		if a, ok := st["a"].(kit.M); ok {
			a = kit.Copy(a)
			a["left-over"] = "y"
			st["a"] = a
		}
		parent["status"] = st
	}
	w.Sim.Seed(parent)
	w.DeliverAll()
	// live parent diverges from the cached one
	switch c.Live {
	case "spec-edited":
		w.Sim.Edit(kit.Thing, "n1", "p", func(o map[string]interface{}) { kit.Field(o, int64(2), "spec", "x") })
	case "labels-edited":
		w.Sim.Edit(kit.Thing, "n1", "p", func(o map[string]interface{}) { kit.Labels(o, "l", "2") })
	case "status-edited":
		// someone else wrote the status since the parent was observed: what the cache shows is not what is stored
		w.Sim.Edit(kit.Thing, "n1", "p", func(o map[string]interface{}) { o["status"] = map[string]interface{}{"written-by": "someone-else"} })
	case "recreated":
		w.Sim.Remove(kit.Thing, "n1", "p")
		np := kit.Copy(parent)
		kit.Field(np, "puid-2", "metadata", "uid")
		w.Sim.Seed(np)
	case "gone":
		w.Sim.Remove(kit.Thing, "n1", "p")
	}
	live0 := w.Sim.Get(kit.Thing, "n1", "p")
	w.Hooks.Handle("/cc/sync", world.JSON(func(req map[string]interface{}) interface{} {
		out := kit.M{"children": kit.L{kit.Field(kit.Obj(kit.Leaf, "", "a"), "1", "spec", "v")}}
		if st := c11Status(c.HookStatus); st != nil {
			out["status"] = st
		}
		return out
	}))
	conflictsLeft := c.Conflicts
	faultUsed := false
	w.Sim.Plan = func(r *sim.Request) *sim.Fault {
		if r.Kind == kit.Leaf && r.Verb == "create" && c.ChildFails {
			return &sim.Fault{Code: 500, Reason: "InternalError"}
		}
		if r.Kind != kit.Thing {
			return nil
		}
		if r.Verb == "get" && c.Fault == "get-500" && !faultUsed {
			faultUsed = true
			return &sim.Fault{Code: 500, Reason: "InternalError"}
		}
		if r.Verb == "update" {
			if conflictsLeft > 0 {
				// make the conflict real: someone else touches the parent between our GET and our PUT
				conflictsLeft--
				n := c.Conflicts - conflictsLeft
				w.Sim.EditLocked(kit.Thing, "n1", "p", func(o map[string]interface{}) { kit.Ann(o, "touch", fmt.Sprint(n)) })
				r.Pre = w.Sim.GetLocked(kit.Thing, "n1", "p")
				return nil
			}
			if !faultUsed {
				switch c.Fault {
				case "put-500":
					faultUsed = true
					return &sim.Fault{Code: 500, Reason: "InternalError"}
				case "put-timeout":
					faultUsed = true
					return &sim.Fault{Transport: true}
				case "put-lost-response":
					faultUsed = true
					return &sim.Fault{Transport: true, Apply: true}
				}
			}
		}
		return nil
	}
	fp := vcache.TakeFingerprint()
	err, p, stack := w.syncKey("n1/p")
	if p != nil {
		bad("panic", "panic %v\n%s", p, stack)
		return f
	}
	if e := fp.Verify(); e != nil {
		bad("cache-mutated", "%v", e)
	}
	if len(w.Hooks.Calls) != 1 {
		bad("hook-calls", "%d hook calls", len(w.Hooks.Calls))
		return f
	}
	hookGen, _ := kit.Get(w.Hooks.Calls[0].Parsed, "parent", "metadata", "generation").(int64)
	target := c11Target(c.HookStatus, hookGen)
	live1 := w.Sim.Get(kit.Thing, "n1", "p")

	var gets, puts []*sim.Request
	for _, r := range w.Sim.Log {
		if r.Kind != kit.Thing {
			continue
		}
		switch r.Verb {
		case "get":
			gets = append(gets, r)
		case "update", "patch", "apply", "delete", "create":
			puts = append(puts, r)
		}
	}
	// S1: only the status endpoint is ever written, body outside status equals the live object
	accepted := 0
	for _, r := range puts {
		if r.Verb != "update" || r.Sub != "status" {
			bad("endpoint", "parent written through %s %q instead of the status endpoint", r.Verb, r.Sub)
			continue
		}
		if !reflect.DeepEqual(kit.Get(r.Body, "status"), interface{}(target)) {
			bad("status-content", "status sent %s, want %s", kit.JSON(kit.Get(r.Body, "status")), kit.JSON(target))
		}
		if kit.UID(r.Body) != "puid" {
			bad("wrong-uid", "status written to uid %q", kit.UID(r.Body))
		}
		if r.Code == 200 && !r.Injected || r.Applied {
			accepted++
			if !reflect.DeepEqual(without(r.Body), without(r.Pre)) {
				bad("body-not-live", "status PUT body differs from the live object outside status:\n body %s\n live %s", kit.JSON(without(r.Body)), kit.JSON(without(r.Pre)))
			}
		}
	}
	// S2: everything but status/resourceVersion of the stored parent is untouched
	if live0 != nil && live1 != nil {
		a, b := without(live0, "resourceVersion", "annotations"), without(live1, "resourceVersion", "annotations")
		if !reflect.DeepEqual(a, b) {
			bad("parent-altered", "parent changed outside status:\n before %s\n after  %s", kit.JSON(a), kit.JSON(b))
		}
		ann := kit.Map(live1, "metadata", "annotations")
		if ann["a"] != "1" {
			bad("parent-altered", "annotation a lost")
		}
	}
	if (live0 == nil) != (live1 == nil) {
		bad("parent-altered", "parent existence changed")
	}
	// S3: when / whether the write happens
	canWrite := c.Live != "recreated" && c.Live != "gone"
	needed := canWrite && !reflect.DeepEqual(kit.Get(live0, "status"), interface{}(target))
	switch {
	case !canWrite:
		if len(puts) > 0 {
			bad("written-to-other-object", "%d writes although the parent sent to the hook no longer exists", len(puts))
		}
		if err != nil && !c.ChildFails && c.Fault != "get-500" {
			bad("gone-is-error", "parent gone/recreated must not be an error: %v", err)
		}
		c11Outcome = "parent-gone"
	case !needed:
		if len(puts) > 0 {
			bad("needless-write", "status already equal but %d writes sent", len(puts))
		}
		c11Outcome = "skipped-equal"
	default:
		if len(gets) == 0 {
			bad("no-fresh-read", "status written without a fresh read")
		}
		wantAttempts := c.Conflicts + 1
		if wantAttempts > 4 {
			wantAttempts = 4
		}
		gotAttempts := len(puts)
		failedEarly := c.Fault == "get-500"
		if failedEarly {
			if len(puts) != 0 {
				bad("write-after-failed-read", "GET failed but %d writes", len(puts))
			}
			c11Outcome = "read-failed"
		} else {
			if gotAttempts != wantAttempts {
				bad("attempts", "%d status write attempts, want %d (retry against a fresh read on conflict)", gotAttempts, wantAttempts)
			}
			if len(gets) < gotAttempts {
				bad("retry-without-reread", "%d writes but only %d reads", gotAttempts, len(gets))
			}
			wantAccepted := 1
			if c.Conflicts >= 4 || c.Fault == "put-500" || c.Fault == "put-timeout" {
				wantAccepted = 0
			}
			if accepted != wantAccepted {
				bad("accepted", "%d accepted status writes, want %d", accepted, wantAccepted)
			}
			if wantAccepted == 1 && !reflect.DeepEqual(kit.Get(live1, "status"), interface{}(target)) {
				bad("final-status", "stored status %s, want %s", kit.JSON(kit.Get(live1, "status")), kit.JSON(target))
			}
			c11Outcome = fmt.Sprintf("attempts=%d accepted=%d", gotAttempts, accepted)
		}
	}
	// S4: errors. Injected 500/timeouts on the status path are errors; conflicts and a vanished parent are
	// not. (Whether a *child* failure is still reported when the status path ends in a benign race is C12's
	// subject and not asserted here.)
	statusPathBenign := !canWrite || (needed && c.Conflicts >= 4)
	wantErr := c.ChildFails
	if c.Fault == "get-500" {
		wantErr = true
		statusPathBenign = false
	} else if canWrite && needed && c.Conflicts < 4 && c.Fault != "none" {
		wantErr = true
	}
	if !(statusPathBenign && c.ChildFails) && (err != nil) != wantErr {
		bad("error", "sync error = %v, want error = %v", err, wantErr)
	}
	// S5: attempted even when reconciling children failed
	if c.ChildFails && canWrite && needed && c.Fault != "get-500" && len(puts) == 0 {
		bad("skipped-after-child-failure", "children failed and the status write was not attempted")
	}
	return f
}

// --- finalize path: observedGeneration after finalized:true ------------------------------------------

type c11FinCase struct {
	Finalized  bool
	LiveEdited bool
	ForeignFin bool
}

func c11FinRun(c c11FinCase) []mc.Finding {
	var f []mc.Finding
	bad := func(key, format string, a ...interface{}) {
		f = append(f, mc.Finding{Key: "C11:" + key, Msg: fmt.Sprintf("%+v: ", c) + fmt.Sprintf(format, a...)})
	}
	w := newCWorld(ccOpt{parent: kit.Thing, children: []*sim.Kind{kit.Leaf}, generateSel: true, finalize: true}, false)
	parent := kit.Obj(kit.Thing, "n1", "p")
	kit.Field(parent, "puid", "metadata", "uid")
	kit.Field(parent, int64(1), "spec", "x")
	fins := []string{"metacontroller.io/compositecontroller-cc"}
	if c.ForeignFin {
		fins = append(fins, "ex.io/hold")
	}
	kit.Deleting(kit.Finalizers(parent, fins...))
	w.Sim.Seed(parent)
	w.DeliverAll()
	if c.LiveEdited {
		w.Sim.Edit(kit.Thing, "n1", "p", func(o map[string]interface{}) { kit.Field(o, int64(2), "spec", "x") })
	}
	w.Hooks.Handle("/cc/finalize", world.JSON(func(req map[string]interface{}) interface{} {
		return kit.M{"status": kit.M{"a": int64(1)}, "children": kit.L{}, "finalized": c.Finalized}
	}))
	err, p, stack := w.syncKey("n1/p")
	if p != nil || err != nil {
		bad("fin-error", "err=%v panic=%v %s", err, p, stack)
		return f
	}
	hookGen, _ := kit.Get(w.Hooks.Calls[0].Parsed, "parent", "metadata", "generation").(int64)
	live := w.Sim.Get(kit.Thing, "n1", "p")
	if live == nil {
		c11Outcome = "parent-finalized-away"
		if c.ForeignFin || !c.Finalized {
			bad("fin-gone", "parent disappeared")
		}
		return f
	}
	c11Outcome = "parent-kept"
	want := kit.M{"a": int64(1), "observedGeneration": hookGen}
	if !reflect.DeepEqual(kit.Get(live, "status"), interface{}(want)) {
		bad("observedGeneration-not-hook-generation", "stored status %s, want %s (the hook was sent generation %d)", kit.JSON(kit.Get(live, "status")), kit.JSON(want), hookGen)
	}
	return f
}

// --- sequences of answers: the stored status follows the hook from answer to answer ------------------------

func c11SeqRun(seq []string) []mc.Finding {
	var f []mc.Finding
	bad := func(key, format string, a ...interface{}) {
		f = append(f, mc.Finding{Key: "C11:" + key, Msg: fmt.Sprintf("answers %v: ", seq) + fmt.Sprintf(format, a...)})
	}
	w := newCWorld(ccOpt{parent: kit.Thing, children: []*sim.Kind{kit.Leaf}, generateSel: true}, false)
	parent := kit.Obj(kit.Thing, "n1", "p")
	kit.Field(parent, "puid", "metadata", "uid")
	kit.Field(parent, int64(1), "spec", "x")
	w.Sim.Seed(parent)
	w.DeliverAll()
	cur := ""
	w.Hooks.Handle("/cc/sync", world.JSON(func(req map[string]interface{}) interface{} {
		out := kit.M{"children": kit.L{kit.Field(kit.Obj(kit.Leaf, "", "a"), "1", "spec", "v")}}
		if st := c11Status(cur); st != nil {
			out["status"] = st
		}
		return out
	}))
	for i, shape := range seq {
		cur = shape
		w.Sim.ResetLog()
		if err, p, stack := w.syncKey("n1/p"); err != nil || p != nil {
			bad("seq:sync-error", "sync %d: %v %v %s", i, err, p, stack)
			return f
		}
		w.DeliverAll()
		live := w.Sim.Get(kit.Thing, "n1", "p")
		gen, _ := kit.Get(live, "metadata", "generation").(int64)
		if target := c11Target(shape, gen); !reflect.DeepEqual(kit.Get(live, "status"), interface{}(target)) {
			bad("seq:final-status", "after answer %d (%s) the stored status is %s, want %s", i, shape, kit.JSON(kit.Get(live, "status")), kit.JSON(target))
			return f
		}
		// and a repeat of the same answer writes nothing
		w.Sim.ResetLog()
		if err, p, stack := w.syncKey("n1/p"); err != nil || p != nil {
			bad("seq:sync-error", "repeat of sync %d: %v %v %s", i, err, p, stack)
			return f
		}
		for _, r := range w.Sim.Log {
			if r.Kind == kit.Thing && r.Mutating() {
				bad("seq:needless-write", "repeat of answer %d (%s): %s", i, shape, r)
			}
		}
		w.DeliverAll()
	}
	c11Outcome = "followed"
	return f
}

// --- a parent kind without metadata.generation: the generation sent to the hook is 0, and that is what is stored

func c11PlainRun(pk *sim.Kind, shape string) []mc.Finding {
	var f []mc.Finding
	what, pns, key, wantGen := "parent kind without metadata.generation", "n1", "n1/p", int64(0)
	if !pk.Namespaced {
		what, pns, key, wantGen = "cluster-scoped parent", "", "p", int64(1)
	}
	bad := func(key, format string, a ...interface{}) {
		f = append(f, mc.Finding{Key: "C11:" + key, Msg: fmt.Sprintf("%s, hook status %s: ", what, shape) + fmt.Sprintf(format, a...)})
	}
	w := newCWorld(ccOpt{parent: pk, children: []*sim.Kind{kit.Leaf}, generateSel: true}, false)
	parent := kit.Obj(pk, pns, "p")
	kit.Field(parent, "puid", "metadata", "uid")
	kit.Field(parent, int64(1), "spec", "x")
	w.Sim.Seed(parent)
	w.DeliverAll()
	w.Hooks.Handle("/cc/sync", world.JSON(func(req map[string]interface{}) interface{} {
		out := kit.M{"children": kit.L{kit.Field(kit.Obj(kit.Leaf, "n1", "a"), "1", "spec", "v")}}
		if st := c11Status(shape); st != nil {
			out["status"] = st
		}
		return out
	}))
	for round := 0; round < 2; round++ {
		w.Sim.ResetLog()
		if err, p, stack := w.syncKey(key); err != nil || p != nil {
			bad("plain:sync-error", "sync %d: %v %v %s", round, err, p, stack)
			return f
		}
		w.DeliverAll()
		if g := kit.Get(w.Hooks.Calls[len(w.Hooks.Calls)-1].Parsed, "parent", "metadata", "generation"); pk.NoGeneration && g != nil && g != int64(0) && g != float64(0) {
			bad("plain:setup", "the parent sent to the hook carries generation %v", g)
		}
		live := w.Sim.Get(pk, pns, "p")
		if target := c11Target(shape, wantGen); !reflect.DeepEqual(kit.Get(live, "status"), interface{}(target)) {
			bad("plain:final-status", "sync %d: stored status %s, want %s (observedGeneration = the generation sent to the hook = %d)", round, kit.JSON(kit.Get(live, "status")), kit.JSON(target), wantGen)
		}
		if round == 1 {
			for _, r := range w.Sim.Log {
				if r.Kind == pk && r.Mutating() {
					bad("plain:needless-write", "repeat sync: %s", r)
				}
			}
		}
	}
	c11Outcome = "plain-followed"
	return f
}

func TestVerifC11(t *testing.T) {
	r := mc.NewReport("C11", "status")
	dims := []int{len(c11HookStatus), len(c11Live), len(c11Existing), len(c11Conflicts), len(c11Faults), 2}
	mc.Product(r, dims, func(idx int, d []int) {
		c := c11Case{HookStatus: c11HookStatus[d[0]], Live: c11Live[d[1]], Existing: c11Existing[d[2]], Conflicts: c11Conflicts[d[3]], Fault: c11Faults[d[4]], ChildFails: d[5] == 1}
		if !mc.Thorough() && c.Conflicts == 4 && (d[0] > 0 || d[2] > 0 || d[1] > 1) {
			return // quick tier: the give-up runs (310 ms of real back-off each) on a reduced alphabet
		}
		r.Case(c, fmt.Sprint(idx), func() []mc.Finding { return c11Run(c) })
		r.Outcome(c11Outcome)
		if idx%401 == 0 {
			r.Sample(c)
		}
	})
	r.Write()
	r2 := mc.NewReport("C11", "finalize")
	mc.Product(r2, []int{2, 2, 2}, func(idx int, d []int) {
		c := c11FinCase{Finalized: d[0] == 1, LiveEdited: d[1] == 1, ForeignFin: d[2] == 1}
		r2.Case(c, fmt.Sprint(idx), func() []mc.Finding { return c11FinRun(c) })
		r2.Outcome(c11Outcome)
		r2.Sample(c)
	})
	r2.Write()
	r3 := mc.NewReport("C11", "answer-sequences")
	shapes := append([]string{}, c11HookStatus...)
	n := len(shapes)
	mc.Product(r3, []int{n, n, n}, func(idx int, d []int) {
		seq := []string{shapes[d[0]], shapes[d[1]], shapes[d[2]]}
		r3.Case(seq, fmt.Sprint(idx), func() []mc.Finding { return c11SeqRun(seq) })
		r3.Outcome(c11Outcome)
		if idx%37 == 0 {
			r3.Sample(seq)
		}
	})
	r3.Write()
	r4 := mc.NewReport("C11", "no-generation")
	kinds := []*sim.Kind{kit.PlainThing, kit.CThing}
	mc.Product(r4, []int{len(c11HookStatus), len(kinds)}, func(idx int, d []int) {
		shape, pk := c11HookStatus[d[0]], kinds[d[1]]
		r4.Case(kit.M{"shape": shape, "parent": pk.Resource}, fmt.Sprint(idx), func() []mc.Finding { return c11PlainRun(pk, shape) })
		r4.Outcome(c11Outcome + ":" + pk.Resource)
		r4.Sample(shape)
	})
	r4.Write()
}
