//go:build verif

package composite

import (
	"fmt"
	"regexp"
	"strings"
	"testing"

	metav1 "k8s.io/apimachinery/pkg/apis/meta/v1"

	"metacontroller/pkg/apis/metacontroller/v1alpha1"
	"metacontroller/pkg/internal/verif/kit"
	"metacontroller/pkg/internal/verif/mc"
	"metacontroller/pkg/internal/verif/sim"
	"metacontroller/pkg/internal/verif/vcache"
	"metacontroller/pkg/internal/verif/world"
)

// C10: finalizer - added first, honoured on deletion, removed only when finalized (DESIGN §4 C10).
// Explicit-state BFS over parent life cycles; every sync transition is judged by temporal monitors over
// the request log and the hook log of that sync.

const c10Fin = "metacontroller.io/compositecontroller-cc"

type c10Cfg struct {
	Finalize string // "none", "keep" (finalized:false, children kept), "teardown" (drop one child per call, finalized when none observed), "now" (finalized:true at once)
	Rolling  bool   // RollingRecreate children (ControllerRevisions, several live revisions)
	Removed  bool   // the finalize hook is removed from the controller later (event "reconfigure")
}

var uidRe = regexp.MustCompile(`uid-\d+`)

// canonUIDs renames uid-N tokens in order of first appearance (UIDs are only compared for equality).
func canonUIDs(s string) string {
	m := map[string]string{}
	return uidRe.ReplaceAllStringFunc(s, func(u string) string {
		if r, ok := m[u]; ok {
			return r
		}
		r := fmt.Sprintf("U%d", len(m)+1)
		m[u] = r
		return r
	})
}

var rvRe = regexp.MustCompile(`"resourceVersion":"\d+",?`)

type c10World struct {
	*cworld
	cfg        c10Cfg
	finalizeOn bool
	faultNext  string // "", "conflict", "500" on the next finalizer PUT
	findings   []mc.Finding
	hist       []string
	done       map[string]bool // one-shot events already used (part of the state)
	syncs      int
	clause     func(string)
}

type c10Snap struct {
	env        *world.Snap
	finalizeOn bool
	done       map[string]bool
	hist       []string
	pc         *parentController
}

func (x *c10World) Snapshot() interface{} {
	d := map[string]bool{}
	for k, v := range x.done {
		d[k] = v
	}
	return &c10Snap{x.Base.Snapshot(), x.finalizeOn, d, append([]string{}, x.hist...), x.PC}
}

func (x *c10World) Restore(s interface{}) {
	sn := s.(*c10Snap)
	x.Base.Restore(sn.env)
	x.finalizeOn = sn.finalizeOn
	x.PC = sn.pc
	x.done = map[string]bool{}
	for k, v := range sn.done {
		x.done[k] = v
	}
	x.hist = append([]string{}, sn.hist...)
	x.findings = nil
}

func (x *c10World) Events() []string { return x.events() }
func (x *c10World) Apply(ev string)  { x.apply(ev) }
func (x *c10World) Canon() string    { return c10Canon(x) }
func (x *c10World) TakeFindings() []mc.Finding {
	f := x.findings
	x.findings = nil
	return f
}

func (x *c10World) bad(key, format string, a ...interface{}) {
	x.findings = append(x.findings, mc.Finding{Key: "C10:" + key, Msg: fmt.Sprintf("%+v after %v: ", x.cfg, x.hist) + fmt.Sprintf(format, a...)})
}

func c10Desired(req map[string]interface{}) kit.L {
	// two children a, b whose content follows the parent's template version
	v, _ := kit.Get(req, "parent", "spec", "template", "v").(string)
	return kit.L{
		kit.Field(kit.Obj(kit.Leaf, "", "a"), v, "spec", "v"),
		kit.Field(kit.Obj(kit.Leaf, "", "b"), v, "spec", "v"),
	}
}

func (x *c10World) build() {
	o := ccOpt{parent: kit.Thing, children: []*sim.Kind{kit.Leaf}, generateSel: true, finalize: x.finalizeOn,
		selector: &metav1.LabelSelector{MatchLabels: map[string]string{"app": "x"}}}
	if x.cfg.Rolling {
		o.methods = map[string]v1alpha1.ChildUpdateMethod{"leafs": v1alpha1.ChildUpdateRollingRecreate}
	} else {
		o.methods = map[string]v1alpha1.ChildUpdateMethod{"leafs": v1alpha1.ChildUpdateInPlace}
	}
	if x.cworld == nil {
		x.cworld = newCWorld(o, false)
	} else {
		// reconfigure: same cluster and caches, a new controller instance with the new hooks
		w, err := attachComposite(x.Base, o, false)
		if err != nil {
			panic(err)
		}
		x.cworld = w
	}
	x.Hooks.Handle("/cc/sync", world.JSON(func(req map[string]interface{}) interface{} {
		return kit.M{"status": kit.M{}, "children": c10Desired(req)}
	}))
	x.Hooks.Handle("/cc/finalize", world.JSON(func(req map[string]interface{}) interface{} {
		observed := kit.Map(req, "children", "Leaf.v1")
		switch x.cfg.Finalize {
		case "keep":
			return kit.M{"status": kit.M{}, "children": c10Desired(req), "finalized": false}
		case "now":
			return kit.M{"status": kit.M{}, "children": kit.L{}, "finalized": true}
		case "split-keep":
			// as "split", but the children are kept: an old revision goes on claiming its children
			return kit.M{"status": kit.M{}, "children": c10Desired(req), "finalized": kit.Get(req, "parent", "spec", "template", "v") == "2"}
		case "split":
			// the answer depends on the parent revision: only the edited template says "finalized"
			return kit.M{"status": kit.M{}, "children": kit.L{}, "finalized": kit.Get(req, "parent", "spec", "template", "v") == "2"}
		default: // teardown
			names := kit.SortedKeys(observed)
			var keep kit.L
			for i, n := range names {
				if i == len(names)-1 {
					continue // drop the last one
				}
				keep = append(keep, kit.Field(kit.Obj(kit.Leaf, "", n), kit.Get(observed[n], "spec", "v"), "spec", "v"))
			}
			if keep == nil {
				keep = kit.L{}
			}
			return kit.M{"status": kit.M{}, "children": keep, "finalized": len(names) == 0}
		}
	}))
}

func (x *c10World) parent() kit.M { return x.Sim.Get(kit.Thing, "n1", "p") }

// events enabled in the current state (small, finite menu).
func (x *c10World) events() []string {
	p := x.parent()
	var ev []string
	if p == nil {
		if !x.done["create"] {
			ev = append(ev, "create")
		}
		ev = append(ev, "sync", "deliverAll")
		return ev
	}
	ev = append(ev, "sync", "deliverAll", "gc")
	deleting := kit.Get(p, "metadata", "deletionTimestamp") != nil
	if !deleting {
		ev = append(ev, "relabel", "delete-background", "delete-foreground", "delete-orphan")
		if !x.done["replace"] && !kit.HasFinalizer(p, c10Fin) {
			// deleted and re-created under the same name (new UID) behind the controller's back, in the window in
			// which the finalizer has not been added yet (the add then starts from a stale copy of the old object)
			ev = append(ev, "replace")
		}
		if !x.done["edit-spec"] && x.cfg.Rolling {
			ev = append(ev, "edit-spec")
		}
	}
	if !kit.HasFinalizer(p, "ex.io/foreign") && !x.done["foreign-finalizer"] && !deleting {
		ev = append(ev, "foreign-finalizer")
	}
	if kit.HasFinalizer(p, "ex.io/foreign") && deleting && !x.done["drop-foreign-finalizer"] {
		ev = append(ev, "drop-foreign-finalizer")
	}
	if x.cfg.Removed && x.finalizeOn {
		ev = append(ev, "reconfigure")
	}
	if !x.done["child-unmatch"] {
		for _, c := range x.Sim.All(kit.Leaf) {
			if kit.ControllerUID(c) == kit.UID(p) && kit.Str(c, "metadata", "labels", "controller-uid") == kit.UID(p) {
				ev = append(ev, "child-unmatch") // somebody relabels an owned child: it no longer matches the selector
				break
			}
		}
	}
	if x.finalizeOn && !x.done["sync!conflict"] {
		ev = append(ev, "sync!conflict")
	}
	if x.finalizeOn && !x.done["sync!500"] {
		ev = append(ev, "sync!500")
	}
	return ev
}

func contains(l []string, s string) bool {
	for _, x := range l {
		if x == s {
			return true
		}
	}
	return false
}

func (x *c10World) apply(ev string) {
	x.hist = append(x.hist, ev)
	switch ev {
	case "create", "edit-spec", "child-unmatch", "foreign-finalizer", "drop-foreign-finalizer", "sync!conflict", "sync!500":
		x.done[ev] = true
	}
	switch ev {
	case "create":
		p := kit.Labels(kit.Obj(kit.Thing, "n1", "p"), "app", "x")
		kit.Field(p, "1", "spec", "template", "v")
		x.Sim.Seed(p)
	case "replace":
		x.done["replace"] = true
		old := x.parent()
		x.Sim.Remove(kit.Thing, "n1", "p")
		np := kit.Obj(kit.Thing, "n1", "p")
		if l := kit.Get(old, "metadata", "labels"); l != nil {
			np["metadata"].(kit.M)["labels"] = kit.Copy(kit.M{"l": l})["l"]
		}
		np["spec"] = kit.Copy(kit.M{"s": old["spec"]})["s"]
		x.Sim.Seed(np)
	case "relabel":
		x.Sim.Edit(kit.Thing, "n1", "p", func(o map[string]interface{}) {
			if kit.Str(o, "metadata", "labels", "app") == "x" {
				if x.cfg.Rolling {
					// the last label is taken away: the parent has no metadata.labels at all any more
					delete(o["metadata"].(map[string]interface{}), "labels")
				} else {
					kit.Labels(o, "app", "y")
				}
			} else {
				kit.Labels(o, "app", "x")
			}
		})
	case "child-unmatch":
		for _, c := range x.Sim.All(kit.Leaf) {
			if kit.ControllerUID(c) == kit.UID(x.parent()) {
				x.Sim.Edit(kit.Leaf, kit.NS(c), kit.Name(c), func(o map[string]interface{}) { kit.Labels(o, "controller-uid", "moved-away") })
				break
			}
		}
	case "edit-spec":
		x.Sim.Edit(kit.Thing, "n1", "p", func(o map[string]interface{}) { kit.Field(o, "2", "spec", "template", "v") })
	case "delete-background":
		x.Sim.ExternalDelete(kit.Thing, "n1", "p", "Background")
	case "delete-foreground":
		x.Sim.ExternalDelete(kit.Thing, "n1", "p", "Foreground")
	case "delete-orphan":
		x.Sim.ExternalDelete(kit.Thing, "n1", "p", "Orphan")
	case "foreign-finalizer":
		x.Sim.Edit(kit.Thing, "n1", "p", func(o map[string]interface{}) {
			kit.Finalizers(o, append(strs(kit.List(o, "metadata", "finalizers")), "ex.io/foreign")...)
		})
	case "drop-foreign-finalizer":
		x.Sim.Edit(kit.Thing, "n1", "p", func(o map[string]interface{}) {
			var keep []string
			for _, f := range strs(kit.List(o, "metadata", "finalizers")) {
				if f != "ex.io/foreign" {
					keep = append(keep, f)
				}
			}
			kit.Finalizers(o, keep...)
			if len(keep) == 0 {
				delete(o["metadata"].(map[string]interface{}), "finalizers")
			}
		})
	case "deliverAll":
		x.DeliverAll()
	case "gc":
		x.Sim.GC()
	case "reconfigure":
		x.finalizeOn = false
		x.build()
	case "sync":
		x.sync("")
	case "sync!conflict":
		x.sync("conflict")
	case "sync!500":
		x.sync("500")
	default:
		panic(ev)
	}
}

func strs(l kit.L) []string {
	var out []string
	for _, x := range l {
		out = append(out, x.(string))
	}
	return out
}

// sync runs one real sync and evaluates the monitors F1..F6 on its logs.
func (x *c10World) sync(fault string) {
	x.syncs++
	x.Sim.ResetLog()
	x.Hooks.Reset()
	cachedParent, _ := x.PC.parentInformer.Lister().Namespace("n1").Get("p")
	liveBefore := x.parent()
	finAtCreate := map[int]bool{}
	var createdBare []string
	x.Sim.OnApplied = func(r *sim.Request) {
		if r.Kind == kit.Leaf && r.Verb == "create" {
			live := x.Sim.GetLocked(kit.Thing, "n1", "p")
			// (a child created from a stale cache for a previous incarnation of the parent - its controller
			// reference names a UID that is gone - is the garbage collector's business, not F1's)
			finAtCreate[r.Seq] = kit.HasFinalizer(live, c10Fin) || (live != nil && kit.ControllerUID(r.Body) != kit.UID(live))
		}
	}
	faulted := false
	x.Sim.Plan = func(r *sim.Request) *sim.Fault {
		if fault == "" || faulted || r.Kind != kit.Thing || r.Verb != "update" || r.Sub != "" {
			return nil
		}
		faulted = true
		if fault == "500" {
			return &sim.Fault{Code: 500, Reason: "InternalError"}
		}
		// a real conflict: someone touches the parent between the controller's GET and PUT
		x.Sim.EditLocked(kit.Thing, "n1", "p", func(o map[string]interface{}) { kit.Ann(o, "touched", fmt.Sprint(x.syncs)) })
		r.Pre = x.Sim.GetLocked(kit.Thing, "n1", "p")
		return nil
	}
	fp := vcache.TakeFingerprint()
	err, p, stack := x.syncKey("n1/p")
	x.Sim.Plan, x.Sim.OnApplied = nil, nil
	if p != nil {
		x.bad("panic", "panic %v\n%s", p, stack)
		return
	}
	if e := fp.Verify(); e != nil {
		x.bad("cache-mutated", "%v", e)
	}
	_ = err
	hookConfigured := x.finalizeOn
	// ---- monitors
	var childWritesN, finAdds, finRemovals int
	for _, r := range x.Sim.Log {
		if r.Kind == kit.Leaf && r.Mutating() {
			childWritesN++
			if r.Verb == "create" && r.Applied && hookConfigured {
				// F1: the finalizer is on the parent before any child is created for it
				x.clause("F1")
				if !finAtCreate[r.Seq] {
					createdBare = append(createdBare, r.Name)
				}
			}
		}
		if r.Kind == kit.Thing && r.Verb == "update" && r.Sub == "" {
			had := kit.HasFinalizer(r.Pre, c10Fin)
			has := kit.HasFinalizer(r.Body, c10Fin)
			if !had && has {
				finAdds++
				x.clause("F2")
				// F2: never added to a parent that is already being deleted (not even attempted when observed deleting)
				if kit.Get(r.Pre, "metadata", "deletionTimestamp") != nil && r.Applied {
					x.bad("F2:finalizer-added-to-deleting-parent", "finalizer added although the live parent is being deleted")
				}
				if cachedParent != nil && cachedParent.GetDeletionTimestamp() != nil {
					x.bad("F2:finalizer-add-attempted-on-deleting-parent", "finalizer add attempted although the observed parent is being deleted")
				}
			}
			if had && !has && (r.Applied || r.Code == 200) {
				finRemovals++
			}
		}
	}
	// F3: which hook, with which finalizing flag
	var finalizeAnswers []bool
	var notFinalizedFor []string // parent spec (as sent) of every finalize call answered finalized:false
	for _, hc := range x.Hooks.Calls {
		if hc.Path == "/cc/customize" {
			continue
		}
		sent := kit.Map(hc.Parsed, "parent")
		deleting := kit.Get(sent, "metadata", "deletionTimestamp") != nil
		matches := kit.Str(sent, "metadata", "labels", "app") == "x"
		wantFinalize := hookConfigured && (deleting || !matches)
		x.clause("F3")
		if wantFinalize {
			x.clause("F3:finalize")
		}
		isFinalize := hc.Path == "/cc/finalize"
		flag, _ := hc.Parsed["finalizing"].(bool)
		if isFinalize != wantFinalize || flag != wantFinalize {
			x.bad("F3:wrong-hook", "hook %s finalizing=%v for parent deleting=%v matches=%v finalizeHook=%v", hc.Path, flag, deleting, matches, hookConfigured)
		}
		if isFinalize {
			var resp kit.M
			_ = jsonUnmarshal(hc.Resp, &resp)
			fin, _ := resp["finalized"].(bool)
			finalizeAnswers = append(finalizeAnswers, fin)
			if !fin {
				notFinalizedFor = append(notFinalizedFor, kit.JSON(kit.Get(hc.Parsed, "parent", "spec")))
			}
		}
	}
	// F1 verdict. (A finalize answer that says finalized:true and in the same breath desires a child that does
	// not exist is the hook contradicting itself: the finalizer comes off as it asked, and the child is created
	// as it asked. Not held against metacontroller.)
	saidFinalized := false
	for _, a := range finalizeAnswers {
		saidFinalized = saidFinalized || a
	}
	if !saidFinalized {
		for _, n := range createdBare {
			x.bad("F1:child-created-before-finalizer", "child %s created while the parent did not carry the finalizer", n)
		}
	}
	// F4: the finalizer is removed only after an answer with finalized:true (or when no finalize hook is
	// configured). With several live revisions there is one answer per revision in the same sync: at least one
	// must say finalized:true, and none may say finalized:false.
	if finRemovals > 0 {
		x.clause("F4:removal")
	}
	if finRemovals > 0 && hookConfigured {
		x.clause("F4")
		any := false
		for _, a := range finalizeAnswers {
			if a {
				any = true
			}
		}
		if !any {
			x.bad("F4:finalizer-removed-without-finalized", "finalizer removed but the finalize answers were %v", finalizeAnswers)
		}
		// several live revisions: every revision's view of the parent gets its own answer in the same sync. An
		// answer finalized:false for a revision that is still alive after the sync (it still claims children:
		// its ControllerRevision was kept) says the hook is not done, whatever the other revisions say. (A
		// revision that lost its last claim in this sync is gone, and its answer with it.)
		for _, rev := range x.Sim.All(world.RevisionKind) {
			if lp := x.parent(); lp == nil || kit.ControllerUID(rev) != kit.UID(lp) {
				continue // a record left behind by a previous incarnation of the parent
			}
			var patch kit.M
			switch pp := rev["parentPatch"].(type) {
			case kit.M:
				patch = pp
			case string:
				_ = jsonUnmarshal([]byte(pp), &patch)
			}
			spec := kit.JSON(patch["spec"])
			for _, nf := range notFinalizedFor {
				if nf == spec && len(kit.List(rev, "children")) > 0 {
					x.bad("F4:finalizer-removed-despite-finalized-false", "finalizer removed in a sync whose finalize answers were %v (one per live revision): the answer for the revision with spec %s, which is still alive and claims %s, was finalized:false", finalizeAnswers, spec, kit.JSON(rev["children"]))
				}
			}
		}
	}
	// F8 (the "honoured" half of F4): in a fault-free sync on an up-to-date cache in which every finalize answer
	// said finalized:true, the finalizer does come off (otherwise a deleting parent never goes away and an
	// unselected one is finalized again and again)
	if hookConfigured && len(finalizeAnswers) > 0 && fault == "" && err == nil && cachedParent != nil && liveBefore != nil &&
		kit.UID(liveBefore) == string(cachedParent.GetUID()) && kit.Str(liveBefore, "metadata", "resourceVersion") == cachedParent.GetResourceVersion() &&
		kit.HasFinalizer(liveBefore, c10Fin) {
		all := true
		for _, a := range finalizeAnswers {
			all = all && a
		}
		if all {
			x.clause("F8")
			if after := x.parent(); after != nil && kit.HasFinalizer(after, c10Fin) {
				x.bad("F8:finalizer-kept-after-finalized", "every finalize answer of this fault-free sync said finalized:true, yet the parent still carries the finalizer (finalizers %v)", kit.Get(after, "metadata", "finalizers"))
			}
		}
	}
	// F7: without a finalize hook a leftover finalizer is removed
	if !hookConfigured && cachedParent != nil && contains(cachedParent.GetFinalizers(), c10Fin) && fault == "" &&
		liveBefore != nil && kit.UID(liveBefore) == string(cachedParent.GetUID()) && kit.HasFinalizer(liveBefore, c10Fin) {
		x.clause("F7")
		if finRemovals == 0 {
			x.bad("F7:leftover-finalizer-kept", "no finalize hook is configured, the parent carries the finalizer, and the sync did not remove it (err=%v)", err)
		}
	}
	// F6: a parent pending deletion without a finalize hook, without the finalizer, or with a GC finalizer: no child writes
	if cachedParent != nil && cachedParent.GetDeletionTimestamp() != nil {
		fins := cachedParent.GetFinalizers()
		gc := contains(fins, "foregroundDeletion") || contains(fins, "orphan")
		if !hookConfigured || !contains(fins, c10Fin) || gc {
			x.clause("F6")
		}
		if (!hookConfigured || !contains(fins, c10Fin) || gc) && childWritesN > 0 {
			x.bad("F6:children-written-for-dying-parent", "%d child writes although the parent is pending deletion (finalizeHook=%v finalizers=%v)", childWritesN, hookConfigured, fins)
		}
	}
	// F5: while finalizing (and allowed to), children are reconciled to the finalize answer
	if hookConfigured && cachedParent != nil && cachedParent.GetDeletionTimestamp() != nil && contains(cachedParent.GetFinalizers(), c10Fin) &&
		!contains(cachedParent.GetFinalizers(), "foregroundDeletion") && !contains(cachedParent.GetFinalizers(), "orphan") && err == nil && len(finalizeAnswers) == 1 && !finalizeAnswers[0] {
		hc := x.Hooks.Calls[len(x.Hooks.Calls)-1]
		observed := kit.Map(hc.Parsed, "children", "Leaf.v1")
		desired := map[string]bool{}
		var resp kit.M
		_ = jsonUnmarshal(hc.Resp, &resp)
		for _, c := range kit.List(resp, "children") {
			desired[kit.Name(c.(kit.M))] = true
		}
		for n, o := range observed {
			if kit.Get(o, "metadata", "deletionTimestamp") != nil {
				continue
			}
			if !desired[n] {
				x.clause("F5")
				found := false
				for _, r := range x.Sim.Log {
					if r.Kind == kit.Leaf && r.Verb == "delete" && r.Name == n {
						found = true
					}
				}
				if !found {
					x.bad("F5:finalize-answer-not-applied", "finalize answer drops child %s but no delete was sent", n)
				}
			}
		}
	}
	_ = finAdds
}

func c10Canon(x *c10World) string {
	store := rvRe.ReplaceAllString(x.Sim.Dump(false), "")
	// cache: content + fresh/stale bit per object
	var stale []string
	for _, e := range x.Stale() {
		stale = append(stale, e.String())
	}
	cache := rvRe.ReplaceAllString(x.CacheDump(), "")
	flags := fmt.Sprintf("fin=%v done=%v", x.finalizeOn, mc.SortedKeys(x.done))
	return canonUIDs(store + "\n##\n" + cache + "\n##\n" + strings.Join(stale, ",") + "\n##\n" + flags)
}

func TestVerifC10(t *testing.T) {
	r := mc.NewReport("C10", "composite")
	defer r.Write()
	r.DeclareClauses("F1", "F2", "F3", "F3:finalize", "F4", "F4:removal", "F5", "F6", "F7", "F8")
	var cfgs []c10Cfg
	cfgs = append(cfgs, c10Cfg{Finalize: "split", Rolling: true}, c10Cfg{Finalize: "split-keep", Rolling: true})
	for _, f := range []string{"none", "keep", "teardown", "now"} {
		for _, rolling := range []bool{false, true} {
			cfgs = append(cfgs, c10Cfg{Finalize: f, Rolling: rolling})
			if f != "none" {
				cfgs = append(cfgs, c10Cfg{Finalize: f, Rolling: rolling, Removed: true})
			}
		}
	}
	depth := 7
	if mc.Thorough() {
		depth = 10
	}
	for ci, cfg := range cfgs {
		if !mc.Mine(ci) {
			continue
		}
		sub := mc.NewReport("C10", "tmp")
		x := &c10World{cfg: cfg, finalizeOn: cfg.Finalize != "none", done: map[string]bool{}, clause: r.Clause}
		x.build()
		onT := func(prefix []string) func(hist []string, ev string, fs []mc.Finding) {
			return func(hist []string, ev string, fs []mc.Finding) {
				for _, f := range fs {
					r.Violate(f.Key, f.Msg, kit.M{"cfg": fmt.Sprintf("%+v", cfg), "events": append(append(append([]string{}, prefix...), hist...), ev)})
				}
				r.Outcome(ev)
			}
		}
		// root 1: the empty cluster
		mc.BFSSys(sub, x, mc.BFSOpts{MaxDepth: depth, MaxStates: 400000}, onT(nil))
		// root 2 (non-initial): a steady parent - created, finalizer added, children created, status written
		steady := []string{"create", "deliverAll", "sync", "deliverAll", "sync", "deliverAll"}
		x2 := &c10World{cfg: cfg, finalizeOn: cfg.Finalize != "none", done: map[string]bool{}, clause: r.Clause}
		x2.build()
		for _, ev := range steady {
			x2.apply(ev)
		}
		for _, f := range x2.TakeFindings() {
			r.Violate(f.Key, f.Msg, kit.M{"cfg": fmt.Sprintf("%+v", cfg), "events": steady})
		}
		mc.BFSSys(sub, x2, mc.BFSOpts{MaxDepth: depth, MaxStates: 400000}, onT(steady))
		r.States += sub.States
		r.Transitions += sub.Transitions
		r.Evaluations += sub.Transitions
		r.Distinct += sub.States
		if !sub.Exhaustive {
			r.Capped(fmt.Sprintf("%+v: %s", cfg, sub.Bound))
		} else {
			r.Infof("%+v: %d states, %d transitions, %s", cfg, sub.States, sub.Transitions, sub.Bound)
		}
		r.Sample(kit.M{"cfg": fmt.Sprintf("%+v", cfg), "states": sub.States, "transitions": sub.Transitions})
	}
}
