//go:build verif

package composite

import (
	"fmt"
	"reflect"
	"strings"
	"testing"

	"metacontroller/pkg/apis/metacontroller/v1alpha1"
	"metacontroller/pkg/internal/verif/kit"
	"metacontroller/pkg/internal/verif/mc"
	"metacontroller/pkg/internal/verif/sim"
	"metacontroller/pkg/internal/verif/vcache"
	"metacontroller/pkg/internal/verif/world"
)

// C04: adoption, release and creation obey the ControllerRef rules (DESIGN §4 C04).
// Part 1: decision table selector x labels x owner references x deletion states x cached-vs-live parent,
//         for children and for ControllerRevisions.
// Part 2: two parents with the same selector racing to adopt one orphan, all interleavings at API-call
//         granularity.

var c04Selectors = []string{"matchLabels", "In", "NotIn", "Exists", "generated", "generated+explicit", "empty"}
var c04Labels = []string{"match", "partial", "none"}
var c04Owners = []string{"none", "ours", "other-controller", "ours+extra", "other+extra", "extra-only", "plain-ours", "namesake-plain-owner"}
var c04Live = []string{"same", "deleting", "replaced-uid", "gone"}

type c04Case struct {
	Selector      string
	Labels        string
	Owners        string
	ChildDeleting bool
	CachedParent  string // "alive" or "deleting"
	LiveParent    string
	LiveReplaced  bool   // the live object was deleted and recreated under the same name (new UID, labels that do not match)
	Revision      bool   // the object is a ControllerRevision (rolling strategy) instead of a child
	DesiredLabels string // labels the hook puts on a new desired child: "match" or "nomatch"
	LiveOwners    string // "" / "same": as cached; "added": the live object gained a foreign plain owner since it was observed; "removed": it lost its plain owner x
	// RecheckFault: the first uncached read of the parent (the adoption re-check) fails with this error; a twin of
	// the object under test (same labels, same owners) exists, so that the claim pass has a second candidate
	RecheckFault string
}

func c04Gen(c c04Case) bool { return strings.HasPrefix(c.Selector, "generated") }

func c04SelectorSpec(sel string) kit.M {
	switch sel {
	case "matchLabels":
		return kit.M{"matchLabels": kit.M{"app": "x", "tier": "t"}}
	case "In":
		return kit.M{"matchExpressions": kit.L{kit.M{"key": "app", "operator": "In", "values": kit.L{"x", "z"}}, kit.M{"key": "tier", "operator": "In", "values": kit.L{"t"}}}}
	case "NotIn":
		return kit.M{"matchExpressions": kit.L{kit.M{"key": "app", "operator": "NotIn", "values": kit.L{"bad"}}, kit.M{"key": "tier", "operator": "In", "values": kit.L{"t"}}}}
	case "Exists":
		return kit.M{"matchExpressions": kit.L{kit.M{"key": "app", "operator": "Exists"}, kit.M{"key": "tier", "operator": "Exists"}}}
	case "empty":
		return kit.M{}
	case "generated+explicit":
		// generateSelector is on AND the parent carries a selector of its own, which "is ignored in this case"
		// (nothing in this world satisfies it)
		return kit.M{"matchLabels": kit.M{"nobody": "has-this"}}
	}
	return nil
}

// labels of the child and whether they satisfy the selector
func c04ChildLabels(c c04Case) (kit.M, bool) {
	if c04Gen(c) {
		switch c.Labels {
		case "match":
			return kit.M{"controller-uid": "puid", "app": "x"}, true
		case "partial":
			return kit.M{"controller-uid": "other", "app": "x"}, false
		}
		return kit.M{}, false
	}
	switch c.Labels {
	case "match":
		return kit.M{"app": "x", "tier": "t"}, true
	case "partial":
		if c.Selector == "NotIn" {
			return kit.M{"app": "bad", "tier": "t"}, false
		}
		return kit.M{"app": "x"}, false
	}
	if c.Selector == "NotIn" {
		return kit.M{}, false // tier missing
	}
	return kit.M{}, false
}

var c04Outcome string
var c04Debug bool

func c04Run(c c04Case) []mc.Finding {
	var f []mc.Finding
	bad := func(key, format string, a ...interface{}) {
		f = append(f, mc.Finding{Key: "C04:" + key, Msg: fmt.Sprintf("%+v: ", c) + fmt.Sprintf(format, a...)})
	}
	o := ccOpt{parent: kit.Thing, children: []*sim.Kind{kit.Leaf}, generateSel: c04Gen(c)}
	if c.Revision {
		o.methods = map[string]v1alpha1.ChildUpdateMethod{"leafs": v1alpha1.ChildUpdateRollingInPlace}
	} else {
		o.methods = map[string]v1alpha1.ChildUpdateMethod{"leafs": v1alpha1.ChildUpdateInPlace}
	}
	w := newCWorld(o, false)
	parent := kit.Obj(kit.Thing, "n1", "p")
	kit.Field(parent, "puid", "metadata", "uid")
	if spec := c04SelectorSpec(c.Selector); spec != nil {
		kit.Field(parent, spec, "spec", "selector")
	}
	kit.Field(parent, kit.M{"app": "x", "tier": "t"}, "spec", "template", "metadata", "labels")
	if c.CachedParent == "deleting" {
		kit.Deleting(kit.Finalizers(parent, "ex.io/hold"))
	}
	w.Sim.Seed(parent)
	// the object under test
	k, name := kit.Leaf, "k"
	lbls, matches := c04ChildLabels(c)
	var obj kit.M
	if c.Revision {
		k = world.RevisionKind
		obj = kit.M{"apiVersion": "metacontroller.k8s.io/v1alpha1", "kind": "ControllerRevision", "metadata": kit.M{"name": "rev-k", "namespace": "n1"},
			"parentPatch": kit.M{"spec": kit.M{"old": true}}}
		name = "rev-k"
		// revisions are additionally selected by the parent-type labels
		if matches {
			lbls = kit.Copy(lbls)
			lbls["metacontroller.k8s.io/apiGroup"] = "ex.io"
			lbls["metacontroller.k8s.io/resource"] = "things"
		}
	} else {
		obj = kit.Obj(kit.Leaf, "n1", "k")
	}
	if len(lbls) > 0 {
		obj["metadata"].(kit.M)["labels"] = lbls
	}
	ours := kit.OwnerRef(kit.Thing, "p", "puid", true)
	other := kit.OwnerRef(kit.Thing, "q", "quid", true)
	extra := kit.OwnerRef(kit.Other, "x", "xuid", false)
	switch c.Owners {
	case "ours":
		kit.Owners(obj, ours)
	case "other-controller":
		kit.Owners(obj, other)
	case "ours+extra":
		kit.Owners(obj, extra, ours)
	case "other+extra":
		kit.Owners(obj, extra, other)
	case "extra-only":
		kit.Owners(obj, extra)
	case "namesake-plain-owner":
		// nobody controls it; one of its owners has the parent's kind and name but is another object (same kind in
		// another API group, another UID): that reference is somebody else's
		kit.Owners(obj, kit.M{"apiVersion": "elsewhere.io/v1", "kind": "Thing", "name": "p", "uid": "uid-namesake"})
	case "plain-ours":
		// nobody controls it, but it already lists the parent as a plain owner (e.g. added by hand for garbage collection)
		kit.Owners(obj, kit.OwnerRef(kit.Thing, "p", "puid", false))
	}
	if c.ChildDeleting {
		kit.Deleting(kit.Finalizers(obj, "ex.io/hold"))
	}
	w.Sim.Seed(obj)
	if c.RecheckFault != "" {
		twin := kit.Copy(obj)
		kit.Field(twin, name+"2", "metadata", "name")
		w.Sim.Seed(twin)
	}
	qp := kit.Obj(kit.Thing, "n1", "q")
	kit.Field(qp, "quid", "metadata", "uid")
	w.Sim.Seed(qp)
	xo := kit.Obj(kit.Other, "n1", "x")
	kit.Field(xo, "xuid", "metadata", "uid")
	w.Sim.Seed(xo)
	w.DeliverAll()
	if c.LiveReplaced {
		w.Sim.Remove(k, "n1", name)
		no := kit.Copy(obj)
		md := no["metadata"].(kit.M)
		delete(md, "ownerReferences")
		delete(md, "deletionTimestamp")
		delete(md, "finalizers")
		md["labels"] = kit.M{"replaced": "yes"}
		w.Sim.Seed(no)
	}
	// the live object's other owner references diverge from the cached ones
	switch c.LiveOwners {
	case "taken-over":
		// the parent's own controller reference is gone from the live object and another parent's stands in its
		// place (released and adopted elsewhere since it was observed): the live list has exactly one entry, not ours
		w.Sim.Edit(k, "n1", name, func(o map[string]interface{}) {
			kit.Field(o, []interface{}{map[string]interface{}(kit.OwnerRef(kit.Thing, "q", "quid", true))}, "metadata", "ownerReferences")
		})
	case "added":
		yo := kit.Obj(kit.Other, "n1", "y")
		kit.Field(yo, "yuid", "metadata", "uid")
		w.Sim.Seed(yo)
		w.Sim.Edit(k, "n1", name, func(o map[string]interface{}) {
			refs := append(kit.L{}, kit.List(o, "metadata", "ownerReferences")...)
			kit.Field(o, append(refs, kit.OwnerRef(kit.Other, "y", "yuid", false)), "metadata", "ownerReferences")
		})
	case "removed":
		w.Sim.Edit(k, "n1", name, func(o map[string]interface{}) {
			var refs kit.L
			for _, r := range kit.List(o, "metadata", "ownerReferences") {
				if kit.Str(r, "uid") != "xuid" {
					refs = append(refs, r)
				}
			}
			if len(refs) == 0 {
				delete(o["metadata"].(map[string]interface{}), "ownerReferences")
			} else {
				kit.Field(o, refs, "metadata", "ownerReferences")
			}
		})
	}
	// live parent diverges from the cached one
	switch c.LiveParent {
	case "deleting":
		w.Sim.Edit(kit.Thing, "n1", "p", func(o map[string]interface{}) { kit.Deleting(kit.Finalizers(o, "ex.io/hold")) })
	case "replaced-uid":
		w.Sim.Remove(kit.Thing, "n1", "p")
		np := kit.Copy(parent)
		kit.Field(np, "puid-2", "metadata", "uid")
		w.Sim.Seed(np)
	case "gone":
		w.Sim.Remove(kit.Thing, "n1", "p")
	}
	w.Hooks.Handle("/cc/sync", world.JSON(func(req map[string]interface{}) interface{} {
		d := kit.Obj(kit.Leaf, "", "new")
		if c.DesiredLabels == "match" && !c04Gen(c) {
			kit.Labels(d, "app", "x", "tier", "t")
		} else if c.DesiredLabels == "nomatch" && c04Gen(c) {
			kit.Labels(d, "controller-uid", "uid-of-another-parent") // e.g. labels copied from another parent's child
		} else if c.DesiredLabels == "nomatch" {
			kit.Labels(d, "app", "bad")
		}
		ch := kit.L{d}
		if !c.Revision {
			if observed := kit.Map(req, "children", "Leaf.v1"); observed["k"] != nil {
				ch = append(ch, kit.M{"apiVersion": "v1", "kind": "Leaf", "metadata": kit.M{"name": "k", "labels": kit.Get(observed["k"], "metadata", "labels")}})
			}
		}
		return kit.M{"status": kit.M{}, "children": ch}
	}))
	before := w.Sim.Get(k, "n1", name)
	replacedUID := kit.UID(before)
	if c.RecheckFault != "" {
		used := false
		w.Sim.Plan = func(r *sim.Request) *sim.Fault {
			if used || r.Kind != kit.Thing || r.Verb != "get" || r.Name != "p" {
				return nil
			}
			used = true
			switch c.RecheckFault {
			case "429":
				return &sim.Fault{Code: 429, Reason: "TooManyRequests"}
			case "timeout":
				return &sim.Fault{Transport: true}
			}
			return &sim.Fault{Code: 500, Reason: "InternalError"}
		}
	}
	fp := vcache.TakeFingerprint()
	err, p, stack := w.syncKey("n1/p")
	w.Sim.Plan = nil
	if p != nil {
		bad("panic", "panic %v\n%s", p, stack)
		return f
	}
	if c.RecheckFault != "" {
		// whatever else happens: every accepted adoption (of the object or its twin) comes after a SUCCESSFUL
		// uncached read that showed the parent alive with the observed UID
		fresh := false
		for _, r := range w.Sim.Log {
			if r.Kind == kit.Thing && r.Verb == "get" && r.Name == "p" && r.Code == 200 && !r.Injected && kit.UID(r.Post) == "puid" && kit.Get(r.Post, "metadata", "deletionTimestamp") == nil {
				fresh = true
			}
			if r.Kind == k && r.Verb == "update" && r.Applied && kit.ControllerUID(r.Pre) != "puid" && kit.ControllerUID(r.Post) == "puid" && !fresh {
				bad("adopted-without-fresh-read:after-failed-recheck", "the uncached read of the parent failed (%s) and %s was adopted all the same, without any successful read before it", c.RecheckFault, r.Name)
			}
		}
		if err == nil {
			for _, r := range w.Sim.Log {
				if r.Kind == kit.Thing && r.Verb == "get" && r.Injected {
					bad("failed-recheck-not-reported", "the adoption re-check failed (%s) and the sync reported success", c.RecheckFault)
					break
				}
			}
		}
		c04Outcome = "recheck-fault"
		return f
	}
	if e := fp.Verify(); e != nil {
		bad("cache-mutated", "%v", e)
	}
	after := w.Sim.Get(k, "n1", name)
	if c04Debug {
		fmt.Printf("err=%v\n", err)
		for _, r := range w.Sim.Log {
			fmt.Printf("  %s\n", r)
		}
	}
	if c.LiveReplaced {
		// the object that was observed is gone; its same-named successor is somebody else's business
		for _, r := range w.Sim.Log {
			if r.Kind == k && r.Name == name && r.Mutating() && (r.Applied || r.Code < 300) {
				bad("wrote-to-same-named-successor", "the observed object was replaced (uid %s) and the successor was written: %s", replacedUID, r)
			}
		}
		c04Outcome = "live-replaced"
		return f
	}
	// empty selector: error before any request
	if c.Selector == "empty" {
		c04Outcome = "empty-selector"
		if err == nil {
			bad("empty-selector-accepted", "an empty selector must be an error")
		}
		if len(w.Sim.Log) > 0 {
			bad("requests-with-empty-selector", "requests sent: %v", w.Sim.Log)
		}
		return f
	}
	// classify what happened to the object
	var parentGetBeforePut *sim.Request
	var puts []*sim.Request
	for _, r := range w.Sim.Log {
		if r.Kind == k && r.Name == name && r.Verb == "update" {
			puts = append(puts, r)
		}
		if r.Kind == kit.Thing && r.Verb == "get" && len(puts) == 0 && parentGetBeforePut == nil {
			parentGetBeforePut = r
		}
	}
	hadOurs := c.Owners == "ours" || c.Owners == "ours+extra"
	// adoption / release are read off the accepted writes (a ControllerRevision may be pruned later in the same sync)
	adopted, released := false, false
	for _, r := range puts {
		if !r.Applied {
			continue
		}
		if kit.ControllerUID(r.Pre) != "puid" && kit.ControllerUID(r.Post) == "puid" {
			adopted = true
			after = r.Post
		}
		if kit.ControllerUID(r.Pre) == "puid" && kit.ControllerUID(r.Post) != "puid" {
			released = true
			after = r.Post
		}
	}
	orphan := c.Owners == "none" || c.Owners == "extra-only" || c.Owners == "plain-ours" || c.Owners == "namesake-plain-owner"
	cachedDeleting := c.CachedParent == "deleting"
	liveOK := c.LiveParent == "same" && !cachedDeleting
	switch {
	case adopted:
		c04Outcome = "adopted"
		// adopt => labels match, child not deleting, cached parent alive, fresh read of the parent (same UID, alive) before the PUT
		if !matches || c.ChildDeleting || cachedDeleting || !orphan {
			bad("adopted-against-the-rules", "adopted although matches=%v childDeleting=%v cachedParentDeleting=%v orphan=%v", matches, c.ChildDeleting, cachedDeleting, orphan)
		}
		if !liveOK {
			bad("adopted-without-live-recheck", "adopted although the live parent is %q", c.LiveParent)
		}
		if parentGetBeforePut == nil || parentGetBeforePut.Code != 200 || kit.UID(parentGetBeforePut.Post) != "puid" || kit.Get(parentGetBeforePut.Post, "metadata", "deletionTimestamp") != nil {
			bad("adopted-without-fresh-read", "no uncached read of the parent (same UID, alive) before the adoption write")
		}
		// the only difference is our added owner reference
		a, b := kit.Copy(before), kit.Copy(after)
		delete(a["metadata"].(kit.M), "ownerReferences")
		delete(b["metadata"].(kit.M), "ownerReferences")
		delete(a["metadata"].(kit.M), "resourceVersion")
		delete(b["metadata"].(kit.M), "resourceVersion")
		if !reflect.DeepEqual(a, b) {
			bad("adoption-changed-more", "adoption changed more than the owner references")
		}
	case released:
		c04Outcome = "released"
		if matches || cachedDeleting {
			bad("released-against-the-rules", "released although matches=%v cachedParentDeleting=%v", matches, cachedDeleting)
		}
	default:
		c04Outcome = "untouched"
		// liveness of the rules in the fresh case: a matching live orphan of a live parent IS adopted, a non-matching owned one IS released
		if orphan && matches && !c.ChildDeleting && liveOK && err == nil {
			bad("orphan-not-adopted", "a matching orphan was not adopted")
		}
		if hadOurs && c.LiveOwners != "taken-over" && !matches && !cachedDeleting && c.LiveParent == "same" && err == nil && !c.ChildDeleting {
			bad("not-released", "an owned object that stopped matching was not released")
		}
	}
	// no object ever has two controller references; references of others are never dropped
	if after != nil {
		ctrl := 0
		var names []string
		for _, r := range kit.List(after, "metadata", "ownerReferences") {
			rm := r.(kit.M)
			names = append(names, kit.Str(rm, "name"))
			if b, _ := rm["controller"].(bool); b {
				ctrl++
			}
		}
		if ctrl > 1 {
			bad("two-controller-refs", "object ends up with %d controller references", ctrl)
		}
		for _, r := range kit.List(before, "metadata", "ownerReferences") {
			rm := r.(kit.M)
			if kit.Str(rm, "uid") == "puid" {
				continue
			}
			kept := false
			for _, ar := range kit.List(after, "metadata", "ownerReferences") {
				if kit.Str(ar, "uid") == kit.Str(rm, "uid") {
					kept = true
				}
			}
			if !kept {
				bad("foreign-reference-dropped", "owner reference to %s %s (uid %s) was dropped", kit.Str(rm, "kind"), kit.Str(rm, "name"), kit.Str(rm, "uid"))
			}
		}
		// ... and references that were no longer on the live object are not brought back from the cache
		for _, r := range kit.List(after, "metadata", "ownerReferences") {
			rm := r.(kit.M)
			if kit.Str(rm, "uid") == "puid" {
				continue
			}
			found := false
			for _, b := range kit.List(before, "metadata", "ownerReferences") {
				if kit.Str(b, "uid") == kit.Str(rm, "uid") {
					found = true
				}
			}
			if !found {
				bad("foreign-reference-resurrected", "owner reference to %s is not on the live object but was written from the cached copy", kit.Str(rm, "name"))
			}
		}
		// controlled by someone else: left alone
		if c.Owners == "other-controller" || c.Owners == "other+extra" {
			if !reflect.DeepEqual(before, after) {
				bad("foreign-controlled-object-written", "an object controlled by another owner was modified")
			}
		}
	}
	// desired child whose labels would not satisfy the selector: rejected before anything is written
	hookCalled := len(w.Hooks.Calls) > 0
	if hookCalled && c.DesiredLabels == "nomatch" {
		if err == nil {
			bad("orphaning-child-accepted", "a desired child that does not match the selector was accepted")
		}
		for _, r := range w.Sim.Log {
			if r.Kind == kit.Leaf && r.Verb == "create" {
				bad("orphaning-child-created", "a child that would be orphaned at once was created")
			}
		}
	}
	if hookCalled && c04Gen(c) && c.DesiredLabels != "nomatch" {
		for _, r := range w.Sim.Log {
			if r.Kind == kit.Leaf && r.Verb == "create" && kit.Str(r.Body, "metadata", "labels", "controller-uid") != "puid" {
				bad("generated-label-missing", "child created without the controller-uid label")
			}
		}
	}
	// every child created carries exactly one controller reference: ours
	var created []string
	for _, r := range w.Sim.Log {
		if r.Kind == kit.Leaf && r.Verb == "create" && r.Code == 201 && kit.ControllerUID(r.Post) != "puid" {
			bad("created-without-controller-ref", "created child %s lacks our controller reference", r.Name)
		}
		if r.Kind == kit.Leaf && r.Verb == "create" && r.Code == 201 {
			created = append(created, r.Name)
		}
	}
	// ... and keeps it: the next sync (caches caught up, same hook answer) neither gives the child up nor
	// drops a reference somebody else added to it in the meantime
	if len(created) > 0 && err == nil && c.LiveParent == "same" && c.CachedParent == "alive" {
		for _, n := range created {
			w.Sim.Edit(kit.Leaf, "n1", n, func(o map[string]interface{}) {
				refs := append(kit.L{}, kit.List(o, "metadata", "ownerReferences")...)
				kit.Field(o, append(refs, kit.OwnerRef(kit.Other, "x", "xuid", false)), "metadata", "ownerReferences")
			})
		}
		w.DeliverAll()
		if _, p2, stack2 := w.syncKey("n1/p"); p2 != nil {
			bad("panic", "second sync: %v\n%s", p2, stack2)
			return f
		}
		for _, n := range created {
			o := w.Sim.Get(kit.Leaf, "n1", n)
			if o == nil {
				bad("created-child-gone", "child %s created by the first sync is gone after the second", n)
				continue
			}
			if kit.ControllerUID(o) != "puid" {
				bad("created-child-given-up", "child %s created by the first sync is no longer controlled by the parent after the second (owner references %v)", n, kit.Get(o, "metadata", "ownerReferences"))
			}
			keeper := false
			for _, r := range kit.List(o, "metadata", "ownerReferences") {
				if kit.Str(r, "uid") == "xuid" {
					keeper = true
				}
			}
			if !keeper {
				bad("foreign-reference-dropped", "the owner reference another party added to child %s was dropped by the second sync", n)
			}
		}
	}
	return f
}

// --- part 2: two parents race to adopt one orphan --------------------------------------------------

func c04Race(r *mc.Report, bound int) {
	mc.ExploreSchedules(r, bound, 0, func(s *mc.Sched) ([]func(), func(t *mc.Trace) []mc.Finding) {
		w := newCWorld(ccOpt{parent: kit.Thing, children: []*sim.Kind{kit.Leaf}, methods: map[string]v1alpha1.ChildUpdateMethod{"leafs": v1alpha1.ChildUpdateOnDelete}}, false)
		for _, n := range []string{"p1", "p2"} {
			p := kit.Obj(kit.Thing, "n1", n)
			kit.Field(p, "uid-"+n, "metadata", "uid")
			kit.Field(p, kit.M{"matchLabels": kit.M{"app": "x"}}, "spec", "selector")
			w.Sim.Seed(p)
		}
		w.Sim.Seed(kit.Labels(kit.Obj(kit.Leaf, "n1", "o"), "app", "x"))
		w.Hooks.Handle("/cc/sync", world.JSON(func(req map[string]interface{}) interface{} {
			var ch kit.L
			for n, o := range kit.Map(req, "children", "Leaf.v1") {
				ch = append(ch, kit.M{"apiVersion": "v1", "kind": "Leaf", "metadata": kit.M{"name": n, "labels": kit.Get(o, "metadata", "labels")}})
			}
			if ch == nil {
				ch = kit.L{}
			}
			return kit.M{"status": kit.M{"n": int64(len(ch))}, "children": ch}
		}))
		w.DeliverAll()
		w.Sim.ResetLog()
		w.Sim.Gate = func(verb string, k *sim.Kind, ns, name, sub string) {
			s.Yield(verb + " " + k.Resource + " " + name + " " + sub)
		}
		errs := make([]error, 2)
		threads := []func(){
			func() { errs[0] = w.PC.sync("n1/p1") },
			func() { errs[1] = w.PC.sync("n1/p2") },
		}
		judge := func(t *mc.Trace) []mc.Finding {
			w.Sim.Gate = nil
			var f []mc.Finding
			o := w.Sim.Get(kit.Leaf, "n1", "o")
			ctrl := 0
			for _, ref := range kit.List(o, "metadata", "ownerReferences") {
				if b, _ := ref.(kit.M)["controller"].(bool); b {
					ctrl++
				}
			}
			winners := 0
			for i, e := range errs {
				if e == nil {
					winners++
				}
				_ = i
			}
			r.Outcome(fmt.Sprintf("controllerRefs=%d syncsOK=%d owner=%s", ctrl, winners, kit.ControllerUID(o)))
			if ctrl != 1 {
				f = append(f, mc.Finding{Key: "C04:race:controller-refs", Msg: fmt.Sprintf("orphan ends up with %d controller references", ctrl)})
			}
			// the loser must have failed (409/422), never "succeeded" in adopting
			accepted := 0
			for _, rq := range w.Sim.Log {
				if rq.Kind == kit.Leaf && rq.Verb == "update" && rq.Applied {
					accepted++
				}
			}
			if accepted != 1 {
				f = append(f, mc.Finding{Key: "C04:race:accepted-adoptions", Msg: fmt.Sprintf("%d adoption writes were accepted", accepted)})
			}
			if winners == 2 {
				// both report success: the loser must then not have tried to adopt at all (it saw the winner's reference)
				f = append(f, mc.Finding{Key: "C04:race:loser-reports-success", Msg: "both syncs reported success although only one can own the orphan (the loser saw it as an orphan in its cache)"})
			}
			return f
		}
		return threads, judge
	})
}

func TestVerifC04(t *testing.T) {
	r := mc.NewReport("C04", "table")
	idx := 0
	for _, sel := range c04Selectors {
		for _, lb := range c04Labels {
			for _, ow := range c04Owners {
				for _, cd := range []bool{false, true} {
					for _, cp := range []string{"alive", "deleting"} {
						for _, lp := range c04Live {
							for _, rev := range []bool{false, true} {
								for _, dl := range []string{"match", "nomatch", "match+live-replaced"} {
									if rev && dl == "nomatch" {
										continue
									}
									if dl == "match+live-replaced" && (cd || cp == "deleting" || lp != "same") {
										continue
									}
									if sel == "empty" && (lb != "match" || ow != "none" || cd || lp != "same") {
										continue
									}
									idx++
									if !mc.Mine(idx) {
										continue
									}
									c := c04Case{Selector: sel, Labels: lb, Owners: ow, ChildDeleting: cd, CachedParent: cp, LiveParent: lp, Revision: rev, DesiredLabels: strings.TrimSuffix(dl, "+live-replaced"), LiveReplaced: strings.HasSuffix(dl, "+live-replaced")}
									r.Case(c, fmt.Sprint(idx), func() []mc.Finding { return c04Run(c) })
									r.Outcome(c04Outcome)
									if idx%499 == 0 {
										r.Sample(c)
									}
									// the adoption re-check itself fails (with a second candidate in the same claim pass)
									if dl == "match" && lb == "match" && !cd && cp == "alive" && sel != "empty" && (ow == "none" || ow == "extra-only" || ow == "plain-ours") {
										for _, rf := range []string{"500", "429", "timeout"} {
											c2 := c
											c2.RecheckFault = rf
											r.Case(c2, fmt.Sprint(idx)+"recheck-"+rf, func() []mc.Finding { return c04Run(c2) })
											r.Outcome(c04Outcome + ":" + rf)
										}
									}
									// stale cache with respect to the object's OTHER owner references
									if dl == "match" && !cd && cp == "alive" && lp == "same" && sel != "empty" {
										for _, lo := range []string{"added", "removed", "taken-over"} {
											if lo == "removed" && !strings.Contains(ow, "extra") {
												continue
											}
											if lo == "taken-over" && ow != "ours" && ow != "ours+extra" {
												continue
											}
											c2 := c
											c2.LiveOwners = lo
											r.Case(c2, fmt.Sprint(idx)+lo, func() []mc.Finding { return c04Run(c2) })
											r.Outcome(c04Outcome + ":live-owners-" + lo)
										}
									}
								}
							}
						}
					}
				}
			}
		}
	}
	r.Write()
	if i, _ := mc.Shard(); i == 0 {
		r2 := mc.NewReport("C04", "adoption-race")
		bound := 2
		if mc.Thorough() {
			bound = -1
		}
		c04Race(r2, bound)
		r2.Write()
	}
}
