//go:build verif

package composite

import (
	"net/http"
	"fmt"
	"github.com/go-logr/logr"
	"github.com/go-logr/logr/funcr"
	"metacontroller/pkg/logging"
	"regexp"
	"sort"
	"strings"
	"sync"
	"testing"

	"metacontroller/pkg/apis/metacontroller/v1alpha1"
	"metacontroller/pkg/internal/verif/kit"
	"metacontroller/pkg/internal/verif/mc"
	"metacontroller/pkg/internal/verif/sim"
	"metacontroller/pkg/internal/verif/vcache"
	"metacontroller/pkg/internal/verif/world"
)

// C17: shared caches stay read-only and concurrent syncs do not race (DESIGN §4 C17).
// (a) cache immutability + "the hook is sent what the API server delivered" over rollout histories with
//     nested revision field paths, customize and finalize, with a fault at every request position;
// (b) serialisability of two workers syncing distinct parents that share every informer and memo,
//     all interleavings at API-request / hook granularity (preemption-bounded);
// (c) TestVerifC17Race: the same bodies free-running under the race detector (supplementary evidence).

var c17Debug = false

// counters handed out by the sim depend on the (map-iteration) order in which the set-up created the
// children: resourceVersions and counter UIDs are scrubbed before outcomes are compared
var c17Scrub = regexp.MustCompile(`"(resourceVersion|uid)":"(uid-)?\d+",?`)

type c17Cfg struct {
	FieldPaths string // "default", "spec.template", "spec.template.ver"
	Customize  bool
	Finalize   bool
	SSA        bool
	Verbose    bool // log verbosity 10: the code behind V(n).Enabled() guards runs too (the log sink renders and discards)
}

func c17Build(cfg c17Cfg, parents []string) *cworld {
	if cfg.Verbose {
		logging.Logger = funcr.New(func(prefix, args string) {}, funcr.Options{Verbosity: 10})
	} else {
		logging.Logger = logr.Logger{}
	}
	o := ccOpt{parent: kit.Thing, children: []*sim.Kind{kit.Widget}, customize: cfg.Customize, finalize: cfg.Finalize, ssa: cfg.SSA,
		methods: map[string]v1alpha1.ChildUpdateMethod{"widgets": v1alpha1.ChildUpdateRollingInPlace}}
	if cfg.FieldPaths != "default" {
		o.fieldPaths = []string{cfg.FieldPaths}
	}
	w := newCWorld(o, false)
	for _, pn := range parents {
		p := kit.Obj(kit.Thing, "n1", pn)
		kit.Field(p, "uid-"+pn, "metadata", "uid")
		kit.Field(p, int64(2), "spec", "replicas")
		kit.Field(p, "v1", "spec", "template", "ver")
		kit.Field(p, kit.M{"deep": kit.M{"x": int64(1)}}, "spec", "template", "extra")
		kit.Field(p, kit.M{"matchLabels": kit.M{"own": pn}}, "spec", "selector")
		kit.Field(p, kit.M{"own": pn}, "spec", "template", "metadata", "labels")
		w.Sim.Seed(p)
	}
	w.Sim.Seed(kit.Labels(kit.Obj(kit.Other, "n1", "rel"), "rel", "1"))
	w.Sim.Seed(kit.Obj(kit.CWidget, "", "shared"))
	h := world.JSON(func(req map[string]interface{}) interface{} {
		pn := kit.Str(req, "parent", "metadata", "name")
		n, _ := kit.Get(req, "parent", "spec", "replicas").(int64)
		var ch kit.L
		for i := int64(0); i < n; i++ {
			c := kit.Obj(kit.Widget, "", fmt.Sprintf("%s-w%d", pn, i))
			kit.Field(c, kit.Get(req, "parent", "spec", "template", "ver"), "spec", "tpl")
			kit.Labels(c, "own", pn)
			ch = append(ch, c)
		}
		related := 0
		for _, g := range kit.Map(req, "related") {
			related += len(g.(kit.M))
		}
		// (the finalize hook declares itself done at once: the sync then takes the finalizer off)
		return kit.M{"status": kit.M{"related": int64(related)}, "children": ch, "finalized": req["finalizing"] == true}
	})
	w.Hooks.Handle("/cc/sync", h)
	w.Hooks.Handle("/cc/finalize", h)
	w.Hooks.Handle("/cc/customize", world.JSON(func(req map[string]interface{}) interface{} {
		// ... and a CLUSTER-SCOPED related object, selected by name (the parent is namespaced)
		return kit.M{"relatedResources": kit.L{kit.M{"apiVersion": "v1", "resource": "others", "labelSelector": kit.M{"matchLabels": kit.M{"rel": "1"}}},
			kit.M{"apiVersion": "apps.ex/v1", "resource": "cwidgets", "names": kit.L{"shared"}}}}
	}))
	w.DeliverAll()
	return w
}

func c17Healthy(w *cworld) {
	for _, o := range w.Sim.All(kit.Widget) {
		gen, _ := kit.Get(o, "metadata", "generation").(int64)
		w.Sim.Edit(kit.Widget, "n1", kit.Name(o), func(c map[string]interface{}) {
			c["status"] = map[string]interface{}{"observedGeneration": gen}
		})
	}
}

// hookReflectsCache: the parent sent to the hook for the latest revision equals the cached parent.
func c17HookReflectsCache(w *cworld, pn string, cachedJSON string) string {
	// what the server delivered to this sync: the cached copy, or the answer to one of its own requests on the parent
	delivered := map[string]bool{cachedJSON: true}
	for _, rq := range w.Sim.Log {
		if rq.Kind == kit.Thing && rq.Name == pn && rq.Post != nil {
			delivered[kit.JSON(rq.Post)] = true
		}
	}
	latestOK := false
	n := 0
	for _, hc := range w.Hooks.Calls {
		if hc.Path == "/cc/customize" || kit.Str(hc.Parsed, "parent", "metadata", "name") != pn {
			continue
		}
		n++
		if delivered[kit.JSON(kit.Map(hc.Parsed, "parent"))] {
			latestOK = true
		}
	}
	if n > 0 && !latestOK {
		return fmt.Sprintf("none of the %d hook requests for %s carries the parent as the API server delivered it", n, pn)
	}
	return ""
}

func cachedParentJSON(w *cworld, pn string) string {
	o, ok, _ := w.Informer(kit.Thing).GetIndexer().GetByKey("n1/" + pn)
	if !ok {
		return ""
	}
	m := kit.M{}
	_ = jsonUnmarshal([]byte(kit.JSON(o)), &m)
	return kit.JSON(m)
}

func TestVerifC17(t *testing.T) {
	r := mc.NewReport("C17", "immutability")
	r.DeclareClauses("fingerprint", "hook-reflects-cache")
	idx := 0
	for _, fpaths := range []string{"default", "spec.template", "spec.template.ver"} {
		for _, cust := range []bool{false, true} {
			for _, fin := range []bool{false, true} {
				for _, ssav := range []int{0, 1, 2} {
					ssa := ssav == 1
					cfg := c17Cfg{FieldPaths: fpaths, Customize: cust, Finalize: fin, SSA: ssa, Verbose: ssav == 2}
					// history: bring up, edit template (2 live revisions), second edit (3), delete parent (finalize)
					steps := []string{"sync", "sync", "sync", "edit-v2", "sync", "sync", "edit-v3", "sync", "unmatch-child", "sync", "sync", "delete", "sync", "sync"}
					// fault position: -1 none, else the k-th request of the run fails with 500 (every position)
					base := c17Build(cfg, []string{"p"})
					c17Idents = nil
					total := c17History(base, steps, -1, nil)
					idents := map[string]bool{}
					for _, id := range c17Idents {
						idents[id] = true
					}
					// every request of the history, by identity, failing with the errors a loaded API server sheds
					// requests with (the position-based loop below fails every position with a 500)
					for _, id := range mc.SortedKeys(idents) {
						for _, kind := range []string{"429", "server-timeout", "timeout", "403"} {
							if kind == "403" && !mc.Thorough() {
								continue
							}
							fid, fk := id, kind
							dev := kit.M{"cfg": fmt.Sprintf("%+v", cfg), "fault": fk, "at": fid}
							if !mc.MineKey(kit.JSON(dev)) {
								continue
							}
							r.Case(dev, kit.JSON(dev), func() []mc.Finding {
								var f []mc.Finding
								w := c17Build(cfg, []string{"p"})
								c17FaultID, c17FaultKind = fid, fk
								c17History(w, steps, -2, func(key, msg string) {
									f = append(f, mc.Finding{Key: "C17:" + key, Msg: fmt.Sprintf("%+v %s at %s: %s", cfg, fk, fid, msg)})
								})
								return f
							})
						}
					}
					for fault := -1; fault < total; fault++ {
						idx++
						if !mc.Mine(idx) {
							continue
						}
						flt := fault
						dev := kit.M{"cfg": fmt.Sprintf("%+v", cfg), "fault-at-request": flt}
						r.Case(dev, fmt.Sprint(idx), func() []mc.Finding {
							var f []mc.Finding
							w := c17Build(cfg, []string{"p"})
							c17History(w, steps, flt, func(key, msg string) {
								f = append(f, mc.Finding{Key: "C17:" + key, Msg: fmt.Sprintf("%+v fault@%d: %s", cfg, flt, msg)})
							})
							return f
						})
						r.Clause("fingerprint")
						r.Clause("hook-reflects-cache")
					}
				}
			}
		}
	}
	r.Write()

	if i, _ := mc.Shard(); i == 0 {
		r2 := mc.NewReport("C17", "serialisability")
		bound := 2
		if mc.Thorough() {
			bound = 3
		}
		c17Serial(r2, bound)
		r2.Write()
	}
}

// c17History drives one parent through a rollout history; returns the number of requests seen.
// c17FaultID / c17FaultKind: with faultAt == -2 the n-th request with this identity ("verb resource ns/name#n",
// counted over the whole history) fails in this way - the order in which the controller visits objects is not
// fixed, the identity of a request is. c17Idents collects the identities of a fault-free run.
var c17FaultID, c17FaultKind string
var c17Idents []string

func c17Fault(kind string) *sim.Fault {
	switch kind {
	case "429":
		return &sim.Fault{Code: 429, Reason: "TooManyRequests"}
	case "server-timeout":
		return &sim.Fault{Code: 504, Reason: "Timeout"}
	case "403":
		return &sim.Fault{Code: 403, Reason: "Forbidden"}
	case "timeout":
		return &sim.Fault{Transport: true}
	}
	return &sim.Fault{Code: 500, Reason: "InternalError"}
}

func c17History(w *cworld, steps []string, faultAt int, bad func(key, msg string)) int {
	count := 0
	seen := map[string]int{}
	w.Sim.Plan = func(q *sim.Request) *sim.Fault {
		count++
		seen[q.Ident()]++
		id := fmt.Sprintf("%s#%d", q.Ident(), seen[q.Ident()])
		if faultAt == -1 {
			c17Idents = append(c17Idents, id)
		}
		if faultAt == -2 && id == c17FaultID {
			return c17Fault(c17FaultKind)
		}
		if faultAt >= 0 && count-1 == faultAt {
			return &sim.Fault{Code: 500, Reason: "InternalError"}
		}
		return nil
	}
	defer func() { w.Sim.Plan = nil }()
	for _, st := range steps {
		switch st {
		case "edit-v2", "edit-v3":
			w.Sim.Edit(kit.Thing, "n1", "p", func(o map[string]interface{}) {
				kit.Field(o, strings.TrimPrefix(st, "edit-"), "spec", "template", "ver")
				kit.Field(o, kit.M{"deep": kit.M{"x": int64(len(st))}}, "spec", "template", "extra")
			})
			w.DeliverAll()
		case "unmatch-child":
			// somebody relabels an owned child out of the selector: the next sync releases it (a write that starts
			// from the cached child)
			for _, c := range w.Sim.All(kit.Widget) {
				if kit.ControllerUID(c) == "uid-p" {
					w.Sim.Edit(kit.Widget, "n1", kit.Name(c), func(o map[string]interface{}) { kit.Labels(o, "own", "somebody-else") })
					break
				}
			}
			w.DeliverAll()
		case "delete":
			w.Sim.ExternalDelete(kit.Thing, "n1", "p", "Background")
			w.DeliverAll()
		case "sync":
			cached := cachedParentJSON(w, "p")
			w.Hooks.Reset()
			w.Sim.ResetLog()
			fp := vcache.TakeFingerprint()
			_, p, stack := w.syncKey("n1/p")
			if bad != nil {
				if p != nil {
					bad("panic", fmt.Sprintf("%v\n%s", p, stack))
					return count
				}
				if e := fp.Verify(); e != nil {
					bad("cache-mutated", e.Error())
				}
				if cached != "" {
					if why := c17HookReflectsCache(w, "p", cached); why != "" {
						bad("hook-does-not-reflect-cache", why)
					}
				}
			}
			w.DeliverAll()
			w.Sim.GC()
			c17Healthy(w)
			w.DeliverAll()
		}
	}
	return count
}

func c17Essence(w *cworld) string {
	var parts []string
	for _, o := range w.Sim.All(nil) {
		e := kit.M{"kind": o["kind"], "name": kit.Name(o), "labels": kit.Get(o, "metadata", "labels"), "spec": o["spec"], "children": o["children"], "fin": kit.Get(o, "metadata", "finalizers")}
		if o["kind"] == "Thing" {
			e["status"] = o["status"]
		}
		parts = append(parts, kit.JSON(e))
	}
	sort.Strings(parts)
	return strings.Join(parts, "\n")
}

// c17Serial: two workers, distinct parents, every informer and memo shared; outcome must equal a serial order's.
func c17Serial(r *mc.Report, bound int) {
	cfg := c17Cfg{FieldPaths: "spec.template", Customize: true, SSA: true}
	setup := func() *cworld {
		w := c17Build(cfg, []string{"p1", "p2"})
		// first generation up, then both parents get a template change: each sync performs a rolling step
		for i := 0; i < 3; i++ {
			w.syncKey("n1/p1")
			w.syncKey("n1/p2")
			w.DeliverAll()
			c17Healthy(w)
			w.DeliverAll()
		}
		for _, pn := range []string{"p1", "p2"} {
			w.Sim.Edit(kit.Thing, "n1", pn, func(o map[string]interface{}) { kit.Field(o, "v2", "spec", "template", "ver") })
		}
		w.DeliverAll()
		w.Hooks.Reset()
		w.Sim.ResetLog()
		return w
	}
	hookSig := func(w *cworld) string {
		var s []string
		for _, hc := range w.Hooks.Calls {
			s = append(s, hc.Path+" "+c17Scrub.ReplaceAllString(kit.JSON(hc.Parsed), ""))
		}
		sort.Strings(s)
		if c17Debug {
			return strings.Join(s, "\n")
		}
		return mc.Hash(strings.Join(s, "\n"))
	}
	// serial references
	var refs []string
	for _, order := range [][]string{{"p1", "p2"}, {"p2", "p1"}} {
		w := setup()
		for _, pn := range order {
			w.syncKey("n1/" + pn)
		}
		refs = append(refs, c17Essence(w)+"\n##"+hookSig(w))
	}
	mc.ExploreSchedules(r, bound, 0, func(s *mc.Sched) ([]func(), func(t *mc.Trace) []mc.Finding) {
		w := setup()
		w.Sim.Gate = func(verb string, k *sim.Kind, ns, name, sub string) {
			s.Yield(verb + " " + k.Resource + " " + name + " " + sub)
		}
		w.Hooks.Gate = func(phase string, c *world.HookCall) { s.Yield("hook " + phase + " " + c.Path) }
		var errs [2]error
		threads := []func(){
			func() { errs[0] = w.PC.sync("n1/p1") },
			func() { errs[1] = w.PC.sync("n1/p2") },
		}
		return threads, func(t *mc.Trace) []mc.Finding {
			w.Sim.Gate, w.Hooks.Gate = nil, nil
			got := c17Essence(w) + "\n##" + hookSig(w)
			r.Outcome(fmt.Sprintf("errs=%v/%v", errs[0] != nil, errs[1] != nil))
			for _, ref := range refs {
				if got == ref {
					return nil
				}
			}
			// show what differs from the first serial order
			var diff []string
			gl, rl := strings.Split(got, "\n"), strings.Split(refs[0], "\n")
			for i := 0; i < len(gl) || i < len(rl); i++ {
				a, b := "", ""
				if i < len(gl) {
					a = gl[i]
				}
				if i < len(rl) {
					b = rl[i]
				}
				if a != b {
					diff = append(diff, "got:  "+a, "want: "+b)
				}
			}
			return []mc.Finding{{Key: "C17:not-serialisable", Msg: "the outcome of the concurrent syncs equals neither serial order; differences to the order p1,p2:\n" + strings.Join(diff, "\n")}}
		}
	})
}

// TestVerifC17Race runs the same bodies free-running under the race detector (built with -race by the
// driver). A data race or a runtime abort ("concurrent map writes") is reported by the driver.
func TestVerifC17Race(t *testing.T) {
	r := mc.NewReport("C17", "race-pass")
	defer r.Write()
	reps := 60
	if mc.Thorough() {
		reps = 300
	}
	for rep := 0; rep < reps; rep++ {
		r.Case(kit.M{"free-running-repetition": rep}, fmt.Sprint(rep), func() []mc.Finding {
			cfg := c17Cfg{FieldPaths: "spec.template", Customize: true, SSA: rep%2 == 0}
			w := c17Build(cfg, []string{"p1", "p2", "p3"})
			// three live revisions per parent so that every sync spawns parallel per-revision hook calls
			for round := 0; round < 4; round++ {
				var wg sync.WaitGroup
				for _, pn := range []string{"p1", "p2", "p3"} {
					wg.Add(1)
					go func(pn string) {
						defer wg.Done()
						_ = w.PC.sync("n1/" + pn)
					}(pn)
				}
				wg.Wait()
				w.DeliverAll()
				if round < 2 {
					for _, pn := range []string{"p1", "p2", "p3"} {
						w.Sim.Edit(kit.Thing, "n1", pn, func(o map[string]interface{}) { kit.Field(o, fmt.Sprintf("v%d", round+2), "spec", "template", "ver") })
					}
					w.DeliverAll()
				}
			}
			// ... and once more with the hook failing for every call: several per-revision calls of one sync fail at
			// the same time
			w.Hooks.Handle("/cc/sync", func(hc *world.HookCall) (int, http.Header, []byte, error) {
				return 500, nil, []byte("down"), nil
			})
			var wg sync.WaitGroup
			for _, pn := range []string{"p1", "p2", "p3"} {
				wg.Add(1)
				go func(pn string) {
					defer wg.Done()
					_ = w.PC.sync("n1/" + pn)
				}(pn)
			}
			wg.Wait()
			return nil
		})
	}
}
