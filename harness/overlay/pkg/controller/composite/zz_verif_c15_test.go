//go:build verif

package composite

import (
	"strings"
	"net/http"
	"fmt"
	"sort"
	"testing"

	"metacontroller/pkg/internal/verif/kit"
	"metacontroller/pkg/internal/verif/mc"
	"metacontroller/pkg/internal/verif/sim"
	"metacontroller/pkg/internal/verif/vcache"
	"metacontroller/pkg/internal/verif/world"
)

// C15: related objects - the hook gets exactly what its customize rules select (DESIGN §4 C15).

var c15Selections = []string{"none", "empty-selector", "matchLabels", "matchExpressions", "ns-n1", "ns-n2", "names-a", "ns-n1+names-a,b", "INVALID-labels+names", "INVALID-labels+ns"}
var c15Resources = []*sim.Kind{kit.Other, kit.CWidget}

type c15Rule struct {
	Res int
	Sel int
}

type c15Case struct {
	ClusterParent bool
	Rules         []c15Rule
	OtherFirst    bool // a second controller with its own customize hook (other rules) looks at the same parent first
}

func c15RuleJSON(r c15Rule) kit.M {
	k := c15Resources[r.Res]
	m := kit.M{"apiVersion": k.APIVersion(), "resource": k.Resource}
	switch c15Selections[r.Sel] {
	case "empty-selector":
		m["labelSelector"] = kit.M{}
	case "matchLabels":
		m["labelSelector"] = kit.M{"matchLabels": kit.M{"rel": "1"}}
	case "matchExpressions":
		m["labelSelector"] = kit.M{"matchExpressions": kit.L{kit.M{"key": "rel", "operator": "Exists"}}}
	case "ns-n1":
		m["namespace"] = "n1"
	case "ns-n2":
		m["namespace"] = "n2"
	case "names-a":
		m["names"] = kit.L{"a"}
	case "ns-n1+names-a,b":
		m["namespace"] = "n1"
		m["names"] = kit.L{"b", "a"} // (a set: listed in descending order)
	case "INVALID-labels+names":
		m["labelSelector"] = kit.M{"matchLabels": kit.M{"rel": "1"}}
		m["names"] = kit.L{"a"}
	case "INVALID-labels+ns":
		m["labelSelector"] = kit.M{"matchLabels": kit.M{"rel": "1"}}
		m["namespace"] = "n1"
	}
	return m
}

type c15Obj struct {
	kind     *sim.Kind
	ns, name string
	rel      string // label rel value, "" = no label
}

var c15Objects = []c15Obj{
	{kit.Other, "n1", "a", "1"}, {kit.Other, "n1", "b", "0"}, {kit.Other, "n1", "ab", ""}, {kit.Other, "n2", "a", "1"}, {kit.Other, "n2", "c", ""},
	{kit.CWidget, "", "a", "1"}, {kit.CWidget, "", "b", ""},
}

// c15Expected evaluates the rule set independently, straight from the statement.
func c15Expected(c c15Case) (set map[string]bool, groups map[string]bool, invalid bool) {
	set, groups = map[string]bool{}, map[string]bool{}
	parentNS := "n1"
	if c.ClusterParent {
		parentNS = ""
	}
	for _, r := range c.Rules {
		sel := c15Selections[r.Sel]
		k := c15Resources[r.Res]
		if sel == "INVALID-labels+names" || sel == "INVALID-labels+ns" {
			return nil, nil, true
		}
		ruleNS := map[string]string{"ns-n1": "n1", "ns-n2": "n2", "ns-n1+names-a,b": "n1"}[sel]
		if !c.ClusterParent && ruleNS != "" && ruleNS != parentNS {
			return nil, nil, true // a foreign namespace for a namespaced parent is an error
		}
		groups[hookKey(k)] = true
		for _, o := range c15Objects {
			if o.kind != k {
				continue
			}
			if !c.ClusterParent && o.ns != parentNS {
				continue // restricted to the parent's own namespace
			}
			match := false
			switch sel {
			case "none", "empty-selector":
				match = true
			case "matchLabels":
				match = o.rel == "1"
			case "matchExpressions":
				match = o.rel != ""
			case "ns-n1", "ns-n2":
				match = o.ns == ruleNS
			case "names-a":
				match = o.name == "a"
			case "ns-n1+names-a,b":
				match = o.ns == "n1" && (o.name == "a" || o.name == "b")
			}
			if match {
				inner := o.name
				if c.ClusterParent && o.kind.Namespaced {
					inner = o.ns + "/" + o.name
				}
				set[hookKey(k)+"|"+inner] = true
			}
		}
	}
	return set, groups, false
}

var c15Outcome string

func c15Run(c c15Case) []mc.Finding {
	var f []mc.Finding
	bad := func(key, format string, a ...interface{}) {
		f = append(f, mc.Finding{Key: "C15:" + key, Msg: fmt.Sprintf("%+v: ", c) + fmt.Sprintf(format, a...)})
	}
	pk, pns := kit.Thing, "n1"
	if c.ClusterParent {
		pk, pns = kit.CThing, ""
	}
	w := newCWorld(ccOpt{parent: pk, children: []*sim.Kind{kit.Leaf}, generateSel: true, customize: true, finalize: true}, true)
	parent := kit.Obj(pk, pns, "p")
	kit.Field(parent, "puid", "metadata", "uid")
	w.Sim.Seed(parent)
	for _, o := range c15Objects {
		x := kit.Obj(o.kind, o.ns, o.name)
		if o.rel != "" {
			kit.Labels(x, "rel", o.rel)
		}
		w.Sim.Seed(x)
	}
	var rules kit.L
	for _, r := range c.Rules {
		rules = append(rules, c15RuleJSON(r))
	}
	goodCustomize := world.JSON(func(req map[string]interface{}) interface{} { return kit.M{"relatedResources": rules} })
	w.Hooks.Handle("/cc/customize", func(hc *world.HookCall) (int, http.Header, []byte, error) {
		if strings.Contains(kit.Str(hc.Parsed, "parent", "metadata", "name"), "broken") {
			return 503, nil, []byte("the customize hook cannot answer for this parent right now"), nil
		}
		return goodCustomize(hc)
	})
	answer := world.JSON(func(req map[string]interface{}) interface{} { return kit.M{"status": kit.M{}, "children": kit.L{}} })
	w.Hooks.Handle("/cc/sync", answer)
	w.Hooks.Handle("/cc/finalize", answer)
	w.DeliverAll()
	key := parentKey(pns, "p")
	if c.OtherFirst {
		// same parent object (same UID, same generation), another hosted controller, other customize rules: what
		// it learns must not leak into this controller's view
		w2, err := attachComposite(w.Base, ccOpt{name: "c2", parent: pk, children: []*sim.Kind{kit.Leaf}, generateSel: true, customize: true}, true)
		if err != nil {
			bad("setup", "second controller: %v", err)
			return f
		}
		w.Hooks.Handle("/c2/customize", world.JSON(func(req map[string]interface{}) interface{} {
			return kit.M{"relatedResources": kit.L{kit.M{"apiVersion": "v1", "resource": "others", "namespace": "n1", "names": kit.L{"only-the-other-controller-wants-this"}}}}
		}))
		w.Hooks.Handle("/c2/sync", world.JSON(func(req map[string]interface{}) interface{} { return kit.M{"children": kit.L{}} }))
		for i := 0; i < 2; i++ {
			if err, p, stack := w2.syncKey(key); err != nil || p != nil {
				bad("setup", "second controller sync: %v %v %s", err, p, stack)
				return f
			}
			w.DeliverAll()
		}
		w.Hooks.Reset()
		w.Q.Clear()
	}
	want, wantGroups, invalid := c15Expected(c)
	count := func(path string) int {
		n := 0
		for _, hc := range w.Hooks.Calls {
			if hc.Path == path {
				n++
			}
		}
		return n
	}
	check := func(tag string, hookPath string) bool {
		fp := vcache.TakeFingerprint()
		err, p, stack := w.syncKey(key)
		if p != nil {
			bad("panic", "%s: panic %v\n%s", tag, p, stack)
			return false
		}
		if e := fp.Verify(); e != nil {
			bad("cache-mutated", "%v", e)
		}
		// informers for related resources appear during the first sync: fill them, then sync again
		if w.DeliverAll() > 0 {
			w.Q.Clear()
			syncCallsBefore := count(hookPath)
			err, p, stack = w.syncKey(key)
			if invalid && count(hookPath) > syncCallsBefore {
				bad("hook-called-with-partial-map", "%s: %s called although the rule set is invalid", tag, hookPath)
			}
			if p != nil {
				bad("panic", "%s: panic %v\n%s", tag, p, stack)
				return false
			}
		}
		if invalid {
			c15Outcome = "invalid-rules"
			if err == nil {
				bad("invalid-accepted", "%s: invalid rule set accepted", tag)
			}
			if count(hookPath) > 0 && tag == "sync" {
				bad("hook-called-with-partial-map", "%s: %s called although the rule set is invalid", tag, hookPath)
			}
			return false
		}
		if err != nil {
			bad("sync-error", "%s: %v", tag, err)
			return false
		}
		var call *world.HookCall
		for _, hc := range w.Hooks.Calls {
			if hc.Path == hookPath {
				call = hc
			}
		}
		if call == nil {
			bad("no-hook-call", "%s: %s not called", tag, hookPath)
			return false
		}
		rel, _ := call.Parsed["related"].(kit.M)
		got := map[string]bool{}
		for g, objs := range rel {
			if !wantGroups[g] {
				bad("unexpected-group", "%s: related has group %q", tag, g)
			}
			om, _ := objs.(kit.M)
			for ik := range om {
				got[g+"|"+ik] = true
			}
		}
		for g := range wantGroups {
			if _, ok := rel[g]; !ok {
				bad("missing-group", "%s: related lacks group %q", tag, g)
			}
		}
		for e := range want {
			if !got[e] {
				bad("missing", "%s: related lacks %s (got %v)", tag, e, mc.SortedKeys(got))
			}
		}
		for g := range got {
			if !want[g] {
				bad("unexpected", "%s: related contains %s (want %v)", tag, g, mc.SortedKeys(want))
			}
		}
		c15Outcome = fmt.Sprintf("related=%d", len(want))
		return true
	}
	if !check("sync", "/cc/sync") {
		return f
	}
	// at most one customize call per (UID, generation) while cached
	w.Hooks.Calls = nil
	if err, p, _ := w.syncKey(key); err != nil || p != nil {
		bad("resync", "second sync: %v %v", err, p)
	}
	if n := count("/cc/customize"); n != 0 {
		bad("customize-called-again", "customize hook called %d more times for the same UID and generation", n)
	}
	// agreement: every object in the related map wakes the parent when it changes
	keys := make([]string, 0, len(want))
	for k := range want {
		keys = append(keys, k)
	}
	sort.Strings(keys)
	for _, o := range c15Objects {
		inner := o.name
		if c.ClusterParent && o.kind.Namespaced {
			inner = o.ns + "/" + o.name
		}
		if !want[hookKey(o.kind)+"|"+inner] || (!c.ClusterParent && o.ns != pns) {
			continue
		}
		w.Q.Clear()
		w.Sim.Edit(o.kind, o.ns, o.name, func(x map[string]interface{}) { kit.Ann(x, "touched", "1") })
		w.Deliver(o.kind, o.ns, o.name, false)
		if !w.Q.Has("Add", key) {
			bad("related-change-does-not-wake", "%s %s/%s is in the related map but changing it did not queue the parent (queue ops %v)", o.kind.Resource, o.ns, o.name, w.Q.Ops)
		}
	}
	// a selected object that is TERMINATING (deletionTimestamp, held by a finalizer) is still in the related map; when it
	// then loses the label it was selected by, it leaves the map - the parent is woken by that update too
	for _, o := range c15Objects {
		inner := o.name
		if c.ClusterParent && o.kind.Namespaced {
			inner = o.ns + "/" + o.name
		}
		if !want[hookKey(o.kind)+"|"+inner] || (!c.ClusterParent && o.ns != pns) {
			continue
		}
		before := w.Sim.Get(o.kind, o.ns, o.name)
		if kit.Str(before, "metadata", "labels", "rel") == "" {
			continue
		}
		w.Sim.Edit(o.kind, o.ns, o.name, func(x map[string]interface{}) { kit.Deleting(kit.Finalizers(x, "ex.io/hold")) })
		w.Deliver(o.kind, o.ns, o.name, false)
		w.Q.Clear()
		w.Sim.Edit(o.kind, o.ns, o.name, func(x map[string]interface{}) {
			delete(x["metadata"].(map[string]interface{})["labels"].(map[string]interface{}), "rel")
		})
		w.Deliver(o.kind, o.ns, o.name, false)
		if !w.Q.Has("Add", key) {
			bad("related-change-does-not-wake:terminating-object-leaves-selection", "%s %s/%s was in the related map; it is being deleted (held by a finalizer) and has just lost the label it was selected by - the parent was not queued (queue ops %v)", o.kind.Resource, o.ns, o.name, w.Q.Ops)
		}
		// put it back as it was
		w.Sim.Edit(o.kind, o.ns, o.name, func(x map[string]interface{}) {
			md := x["metadata"].(map[string]interface{})
			delete(md, "deletionTimestamp")
			delete(md, "deletionGracePeriodSeconds")
			delete(md, "finalizers")
			md["labels"] = kit.Copy(kit.M{"l": kit.Get(before, "metadata", "labels")})["l"]
		})
		w.Deliver(o.kind, o.ns, o.name, false)
	}
	// the same with two more parents of this controller around (never synced, so no answer is remembered for
	// them) for which the customize hook fails: that is their problem - this parent is woken all the same
	for _, n := range []string{"a-broken", "z-broken"} {
		w.Sim.Seed(kit.Obj(pk, pns, n))
	}
	w.DeliverAll()
	for _, o := range c15Objects {
		inner := o.name
		if c.ClusterParent && o.kind.Namespaced {
			inner = o.ns + "/" + o.name
		}
		if !want[hookKey(o.kind)+"|"+inner] || (!c.ClusterParent && o.ns != pns) {
			continue
		}
		w.Q.Clear()
		w.Sim.Edit(o.kind, o.ns, o.name, func(x map[string]interface{}) { kit.Ann(x, "touched", "1b") })
		w.Deliver(o.kind, o.ns, o.name, false)
		if !w.Q.Has("Add", key) {
			bad("related-change-does-not-wake:hook-fails-for-another-parent", "%s %s/%s is in the related map of p; it changed while the customize hook was failing for two OTHER parents, and p was not queued (queue ops %v)", o.kind.Resource, o.ns, o.name, w.Q.Ops)
		}
	}
	for _, n := range []string{"a-broken", "z-broken"} {
		w.Sim.Remove(pk, pns, n)
	}
	w.DeliverAll()
	// a new generation is asked about again (exactly once), and finalize gets the same related map
	w.Sim.Edit(pk, pns, "p", func(x map[string]interface{}) { kit.Field(x, "2", "spec", "v") })
	w.DeliverAll()
	w.Hooks.Calls = nil
	// a related object changes before the new generation has been synced: no answer is remembered for it yet,
	// the handler has to ask - the parent is woken all the same
	for _, o := range c15Objects {
		inner := o.name
		if c.ClusterParent && o.kind.Namespaced {
			inner = o.ns + "/" + o.name
		}
		if !want[hookKey(o.kind)+"|"+inner] || (!c.ClusterParent && o.ns != pns) {
			continue
		}
		w.Q.Clear()
		w.Sim.Edit(o.kind, o.ns, o.name, func(x map[string]interface{}) { kit.Ann(x, "touched", "2") })
		w.Deliver(o.kind, o.ns, o.name, false)
		if !w.Q.Has("Add", key) {
			bad("related-change-does-not-wake:no-remembered-answer", "%s %s/%s is selected by the parent's rules; it changed while no customize answer was remembered for the parent's new generation and the parent was not queued (queue ops %v)", o.kind.Resource, o.ns, o.name, w.Q.Ops)
		}
		break
	}
	if check("generation-2", "/cc/sync") {
		if n := count("/cc/customize"); n != 1 {
			bad("customize-per-generation", "customize hook called %d times for the new generation, want 1", n)
		}
	}
	w.Sim.Edit(pk, pns, "p", func(x map[string]interface{}) { kit.Deleting(x) })
	w.DeliverAll()
	w.Hooks.Calls = nil
	check("finalize", "/cc/finalize")
	return f
}

func TestVerifC15(t *testing.T) {
	r := mc.NewReport("C15", "composite")
	defer r.Write()
	nr := len(c15Resources) * len(c15Selections)
	idx := 0
	for cp := 0; cp < 2; cp++ {
		for a := 0; a < nr; a++ {
			for b := -1; b < nr; b++ {
				idx++
				if !mc.Mine(idx) {
					continue
				}
				c := c15Case{ClusterParent: cp == 1, Rules: []c15Rule{{a / len(c15Selections), a % len(c15Selections)}}}
				if b >= 0 {
					c.Rules = append(c.Rules, c15Rule{b / len(c15Selections), b % len(c15Selections)})
				}
				r.Case(c, fmt.Sprint(idx), func() []mc.Finding { return c15Run(c) })
				r.Outcome(c15Outcome)
				if idx%101 == 0 {
					r.Sample(c)
				}
				c2 := c
				c2.OtherFirst = true
				r.Case(c2, fmt.Sprint(idx)+"+other", func() []mc.Finding { return c15Run(c2) })
				r.Outcome("other-first:" + c15Outcome)
			}
		}
	}
}
