//go:build verif

package composite

import (
	"fmt"
	"sort"
	"strings"
	"testing"

	"metacontroller/pkg/internal/verif/kit"
	"metacontroller/pkg/internal/verif/mc"
	"metacontroller/pkg/internal/verif/sim"
	"metacontroller/pkg/internal/verif/world"
)

// C08, history part: from EVERY state a rollout history can reach - any interleaving of spec changes
// (template, scale, non-revisioned... all of spec is revisioned by default), syncs and child deletions, to a
// bounded depth - a fair continuation (healthy children, caches delivered, garbage collected, no further
// change) completes within the bound and ends in exactly the cluster a fresh start with the current spec
// converges to: all children at the current spec, one ControllerRevision, Updated=True. Breadth-first over
// the real controller with snapshot/restore; the convergence check runs on a restored copy of each new state.

type rollSpec struct {
	Ver      string // v1 | v2 | v3
	Replicas int    // 1 | 2
	Common   string // c1 | c2
}

type rollHist struct {
	x        *rollWorld
	prop     string
	method   string
	genSel   bool
	paths    bool // revisionHistory.fieldPaths = [spec.template]: replicas and common are outside the revisions
	desc     bool // the hook lists the highest ordinal first
	spec     rollSpec
	hist     []string
	findings []mc.Finding
	refs     map[string]string
	changes  int // spec changes so far (bounded: every one starts a new revision)
	maxCh    int
}

func (h *rollHist) bad(key, format string, a ...interface{}) {
	pre := "C08:history:"
	if h.prop != "C08" {
		pre = h.prop + ":rollout-history:"
	}
	h.findings = append(h.findings, mc.Finding{Key: pre + key, Msg: fmt.Sprintf("{%s genSel=%v templatePathOnly=%v highestFirst=%v} spec %+v after %v: ", h.method, h.genSel, h.paths, h.desc, h.spec, h.hist) + fmt.Sprintf(format, a...)})
}

func rollEssence(x *rollWorld) string {
	var parts []string
	for _, o := range x.Sim.All(nil) {
		e := kit.M{"kind": o["kind"], "name": kit.Name(o), "labels": kit.Get(o, "metadata", "labels"), "spec": o["spec"], "deleting": kit.Get(o, "metadata", "deletionTimestamp") != nil}
		switch o["kind"] {
		case "ControllerRevision":
			var claims []string
			for _, g := range kit.List(o, "children") {
				var ns []string
				for _, nm := range kit.List(g, "names") {
					ns = append(ns, fmt.Sprint(nm))
				}
				sort.Strings(ns)
				claims = append(claims, fmt.Sprintf("%v:%s", kit.Get(g, "kind"), strings.Join(ns, ",")))
			}
			sort.Strings(claims)
			e["claims"] = claims
			e["patch"] = o["parentPatch"]
		case x.pk.Kind:
			st, _ := o["status"].(kit.M)
			if st != nil {
				st = kit.Copy(st)
				st["observedGeneration"] = fmt.Sprint(st["observedGeneration"] == kit.Get(o, "metadata", "generation"))
				// the transition time of the rollout condition is wall-clock
				var conds kit.L
				for _, c := range kit.List(st, "conditions") {
					cm := kit.Copy(c.(kit.M))
					delete(cm, "lastTransitionTime")
					delete(cm, "lastUpdateTime")
					conds = append(conds, cm)
				}
				if conds != nil {
					st["conditions"] = conds
				}
			}
			e["status"] = st
		default:
			e["ready"] = kit.Get(o, "status", "conditions")
			e["observed"] = kit.Get(o, "status", "observedGeneration") == kit.Get(o, "metadata", "generation")
			e["lastApplied"] = kit.Str(o, "metadata", "annotations", kit.LastApplied)
		}
		var owners []string
		for _, r := range kit.List(o, "metadata", "ownerReferences") {
			owners = append(owners, fmt.Sprintf("%v/%v/%v", kit.Get(r, "kind"), kit.Get(r, "name"), kit.Get(r, "controller")))
		}
		e["owners"] = owners
		parts = append(parts, kit.JSON(e))
	}
	sort.Strings(parts)
	return canonUIDs(strings.Join(parts, "\n"))
}

func (h *rollHist) writeSpec(x *rollWorld, s rollSpec) {
	x.Sim.Edit(x.pk, x.pns, "p", func(o map[string]interface{}) {
		kit.Field(o, s.Ver, "spec", "template", "ver")
		kit.Field(o, int64(s.Replicas), "spec", "replicas")
		kit.Field(o, s.Common, "spec", "common")
	})
}

// settle runs fair rounds until the cluster stops changing; returns the number of rounds or -1.
func rollSettle(x *rollWorld, bound int, bad func(key, format string, a ...interface{})) int {
	for i := 0; i < bound; i++ {
		before := x.Sim.Dump(true)
		err, p, stack := x.round()
		if p != nil {
			bad("panic", "panic %v\n%s", p, stack)
			return -1
		}
		if err != nil {
			bad("sync-error", "%v", err)
			return -1
		}
		if x.Sim.Dump(true) == before {
			return i
		}
	}
	return -1
}

func (h *rollHist) reference(s rollSpec) string {
	k := fmt.Sprintf("%+v", s)
	if r, ok := h.refs[k]; ok {
		return r
	}
	x := h.newWorld(s.Replicas)
	h.writeSpec(x, s)
	x.DeliverAll()
	if rollSettle(x, 4*s.Replicas+10, h.bad) < 0 {
		h.bad("reference", "a fresh world with this spec does not settle")
	}
	r := rollEssence(x)
	h.refs[k] = r
	return r
}

func (h *rollHist) newWorld(n int) *rollWorld {
	rollHookDesc = h.desc
	if h.paths {
		rollFieldPaths = []string{"spec.template"}
	}
	defer func() { rollHookDesc, rollFieldPaths = false, nil }()
	return newRollWorld(n, false, "widgets", h.method, false, h.genSel)
}

type rollSnap struct {
	snap    *world.Snap
	spec    rollSpec
	hist    []string
	changes int
}

func (h *rollHist) Snapshot() interface{} {
	return &rollSnap{h.x.Base.Snapshot(), h.spec, append([]string{}, h.hist...), h.changes}
}

func (h *rollHist) Restore(s interface{}) {
	rs := s.(*rollSnap)
	h.x.Base.Restore(rs.snap)
	h.spec, h.hist, h.changes = rs.spec, append([]string{}, rs.hist...), rs.changes
}

func (h *rollHist) Events() []string {
	// a sync, also with its first / second ControllerRevision write refused once (500): the sync fails, the work
	// queue retries it - the rollout must complete all the same
	ev := []string{"sync", "sync!rev-write-1-fails", "sync!rev-write-2-fails"}
	if h.changes < h.maxCh {
		for _, v := range []string{"v1", "v2", "v3"} {
			if v != h.spec.Ver {
				ev = append(ev, "ver="+v)
			}
		}
		for _, n := range []int{1, 2} {
			if n != h.spec.Replicas {
				ev = append(ev, fmt.Sprintf("replicas=%d", n))
			}
		}
		for _, c := range []string{"c1", "c2"} {
			if c != h.spec.Common {
				ev = append(ev, "common="+c)
			}
		}
	}
	if h.x.Sim.Get(h.x.ck, h.x.cns, "w0") != nil {
		ev = append(ev, "env:delete-w0")
	}
	return ev
}

func (h *rollHist) Apply(ev string) {
	h.hist = append(h.hist, ev)
	x := h.x
	x.Hooks.Reset() // (one world per search: do not let the recorded hook calls pile up)
	switch {
	case strings.HasPrefix(ev, "sync!rev-write-"):
		nth, seen := int(ev[len("sync!rev-write-")]-'0'), 0
		x.Sim.Plan = func(r *sim.Request) *sim.Fault {
			if r.Kind == world.RevisionKind && r.Mutating() {
				seen++
				if seen == nth {
					return &sim.Fault{Code: 500, Reason: "InternalError"}
				}
			}
			return nil
		}
		err, p, stack := x.round()
		x.Sim.Plan = nil
		if p != nil {
			h.bad("panic", "panic %v\n%s", p, stack)
			return
		}
		if err == nil && seen >= nth {
			h.bad("failed-revision-write-not-reported", "a ControllerRevision write was refused and the sync reported success")
			return
		}
	case ev == "sync":
		err, p, stack := x.round()
		if p != nil {
			h.bad("panic", "panic %v\n%s", p, stack)
			return
		}
		if err != nil {
			h.bad("sync-error", "%v", err)
			return
		}
	case ev == "env:delete-w0":
		x.Sim.Remove(x.ck, x.cns, "w0")
		x.DeliverAll()
	default:
		kv := strings.SplitN(ev, "=", 2)
		switch kv[0] {
		case "ver":
			h.spec.Ver = kv[1]
		case "replicas":
			h.spec.Replicas = int(kv[1][0] - '0')
		case "common":
			h.spec.Common = kv[1]
		}
		h.changes++
		h.writeSpec(x, h.spec)
		x.DeliverAll()
	}
	// safety after every successful sync: no child is recorded in two revisions
	seen := map[string]int{}
	for _, r := range x.revisions() {
		for _, g := range kit.List(r, "children") {
			for _, nm := range kit.List(g, "names") {
				seen[fmt.Sprint(nm)]++
			}
		}
	}
	for nm, n := range seen {
		// (after a refused revision write a child may be on record twice - added to the latest record, not yet
		// dropped from the old one - until the retry; the convergence check below covers what follows)
		if n > 1 && ev == "sync" {
			h.bad("double-claim", "child %s is recorded in %d ControllerRevisions", nm, n)
		}
	}
	if len(h.findings) > 0 {
		return
	}
	// from here, a fair continuation completes and ends in the cluster a fresh start converges to
	snap := x.Base.Snapshot()
	bound := 3*(h.changes+1)*2 + 12
	rounds := rollSettle(x, bound, h.bad)
	if rounds < 0 && len(h.findings) == 0 {
		st, reason, msg := x.updatedCondition()
		h.bad("does-not-complete", "a fair continuation is still changing the cluster after %d syncs: Updated=%s/%s %q, %d ControllerRevisions", bound, st, reason, msg, len(x.revisions()))
	} else if rounds >= 0 {
		if got, want := rollEssence(x), h.reference(h.spec); got != want {
			h.bad("ends-elsewhere", "the fair continuation settles after %d syncs in a cluster that differs from the one a fresh start with the same spec converges to:\n--- after this history\n%s\n--- fresh start\n%s", rounds, got, want)
		}
	}
	x.Base.Restore(snap)
}

func (h *rollHist) Canon() string {
	return fmt.Sprintf("%+v|%d|", h.spec, h.changes) + mc.Hash(rollEssence(h.x)+"\n"+canonUIDs(rvRe.ReplaceAllString(h.x.CacheDump(), "")))
}

func (h *rollHist) TakeFindings() []mc.Finding {
	f := h.findings
	h.findings = nil
	return f
}

func TestVerifC08Hist(t *testing.T) { rollHistExplore("C08", "histories") }

// C01 over the same histories (convergence to the hook's desired children from every reachable rollout state),
// in the configurations C08 does not run: replicas outside the revisioned fields.
func TestVerifC01RollHist(t *testing.T) { rollHistExplore("C01", "rollout-histories") }

func rollHistExplore(prop, unit string) {
	r := mc.NewReport(prop, unit)
	defer r.Write()
	type cfg struct {
		method string
		genSel bool
		paths  bool
		desc   bool
	}
	var cfgs []cfg
	if prop == "C08" {
		cfgs = []cfg{{"RollingInPlace", false, false, false}, {"RollingRecreate", true, false, false}, {"RollingRecreate", false, true, true}}
		if mc.Thorough() {
			cfgs = append(cfgs, cfg{"RollingInPlace", true, false, false}, cfg{"RollingRecreate", false, false, false}, cfg{"RollingRecreate", false, false, true})
		}
	} else {
		cfgs = []cfg{{"RollingRecreate", false, true, true}, {"RollingInPlace", true, true, true}}
		if mc.Thorough() {
			cfgs = append(cfgs, cfg{"RollingRecreate", true, true, false}, cfg{"RollingInPlace", false, true, false})
		}
	}
	depth, maxCh := 6, 2
	if mc.Thorough() {
		depth, maxCh = 8, 3
	}
	shardI, shardN := mc.Shard()
	for ci, c := range cfgs {
		start := rollSpec{Ver: "v1", Replicas: 2, Common: "c1"}
		h := &rollHist{prop: prop, method: c.method, genSel: c.genSel, paths: c.paths, desc: c.desc, spec: start, refs: map[string]string{}, maxCh: maxCh}
		h.x = h.newWorld(2)
		if rollSettle(h.x, 12, h.bad) < 0 || len(h.findings) > 0 {
			h.bad("setup", "initial bring-up does not settle")
			for _, f := range h.TakeFindings() {
				r.Violate(f.Key, f.Msg, kit.M{"cfg": fmt.Sprintf("%+v", c)})
			}
			continue
		}
		// the search is sharded by its first event
		first := h.Events()
		for fi, fe := range first {
			if (ci*len(first)+fi)%shardN != shardI {
				continue
			}
			root := h.Snapshot()
			h.Apply(fe)
			r.Transitions++
			fs := h.TakeFindings()
			for _, f := range fs {
				r.Violate(f.Key, f.Msg, kit.M{"cfg": fmt.Sprintf("%+v", c), "events": []string{fe}})
			}
			if len(fs) == 0 {
				sub := mc.NewReport(prop, "tmp")
				mc.BFSSys(sub, h, mc.BFSOpts{MaxDepth: depth - 1}, func(hist []string, ev string, fs []mc.Finding) {
					r.Outcome(strings.SplitN(ev, "=", 2)[0])
					for _, f := range fs {
						r.Violate(f.Key, f.Msg, kit.M{"cfg": fmt.Sprintf("%+v", c), "events": append(append([]string{fe}, hist...), ev)})
					}
				})
				r.States += sub.States
				r.Transitions += sub.Transitions
				if !sub.Exhaustive {
					r.Capped(fmt.Sprintf("%+v first event %s: %s", c, fe, sub.Bound))
				} else {
					r.Infof("%+v first event %s: %d states, %d transitions, %s", c, fe, sub.States, sub.Transitions, sub.Bound)
				}
			}
			h.Restore(root)
		}
	}
	r.Evaluations = r.Transitions
	r.Distinct = r.States
}
