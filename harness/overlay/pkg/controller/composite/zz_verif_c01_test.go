//go:build verif

package composite

import (
	"fmt"
	"sort"
	"strings"
	"testing"

	"metacontroller/pkg/apis/metacontroller/v1alpha1"
	"metacontroller/pkg/internal/verif/kit"
	"metacontroller/pkg/internal/verif/mc"
	"metacontroller/pkg/internal/verif/sim"
	"metacontroller/pkg/internal/verif/vcache"
	"metacontroller/pkg/internal/verif/world"
)

// C01: reconciliation converges to the hook's desired children, then goes quiet (DESIGN §4 C01).
// Configurations x hook programs x initial cluster contents, driven through `sync; deliverAll; gc` rounds.

var c01Methods = []string{"<unset>", "OnDelete", "Recreate", "InPlace", "RollingRecreate", "RollingInPlace"}
var c01Hooks = []string{"static0", "static1", "static2", "fromSpec", "ordered3", "echoStatus"}
var c01Slot = []string{"absent", "owned", "owned-drifted", "owned+foreign", "orphan", "orphan-drifted", "orphan-plainref"}

type c01Case struct {
	Cluster  bool
	TwoKinds bool
	Method   string
	GenSel   bool
	Finalize bool
	SSA      bool
	Hook     string
	Slots    [2]string
	Stale    bool // an owned, matching child that is not desired
	Foreign  bool // a look-alike owned by another controller, under another name
	OtherNS  bool // namespaced parent: an object with a desired name in the other namespace; cluster parent: every desired Leaf has a same-named twin in n2
	Partial  int  // thorough: deliver only part of the cache changes in the first k rounds (stale caches between syncs)
}

type c01Prog func(req kit.M) (children kit.L, status kit.M)

func c01Labels(c c01Case, o kit.M) kit.M {
	if !c.GenSel {
		kit.Labels(o, "app", "x")
	}
	return o
}

func c01Child(c c01Case, k *sim.Kind, ns, name, v string) kit.M {
	o := kit.Obj(k, ns, name)
	kit.Field(o, v, "spec", "v")
	kit.Field(o, kit.L{"a", "b"}, "spec", "args") // a plain (non list-map) array the hook specifies
	if name != "a" {
		kit.Ann(o, "ex.io/note", "set-by-the-hook") // some children carry annotations of the hook's own
		if !c.Cluster && ns == "n1" {
			delete(o["metadata"].(kit.M), "namespace") // ... and leave the namespace to be defaulted to the parent's
		}
	}
	return c01Labels(c, o)
}

func c01Program(c c01Case, hook string, cns string) c01Prog {
	return func(req kit.M) (kit.L, kit.M) {
		var out kit.L
		status := kit.M{}
		observed := kit.Map(req, "children", "Leaf.v1")
		switch hook {
		case "static0":
		case "static1", "echoStatus":
			out = append(out, c01Child(c, kit.Leaf, cns, "a", "1"))
		case "static2":
			out = append(out, c01Child(c, kit.Leaf, cns, "a", "1"), c01Child(c, kit.Leaf, cns, "b", "1"))
		case "fromSpec":
			v, _ := kit.Get(req, "parent", "spec", "v").(string)
			n, _ := kit.Get(req, "parent", "spec", "replicas").(int64)
			for i := int64(0); i < n; i++ {
				out = append(out, c01Child(c, kit.Leaf, cns, []string{"a", "b", "c"}[i], v))
			}
		case "ordered3":
			// StatefulSet-like: child i only once all earlier ones are observed
			names := []string{"a", "b", "c"}
			n := 0
			for n < 3 {
				key := names[n]
				if c.Cluster {
					key = cns + "/" + key
				}
				if _, ok := observed[key]; !ok {
					break
				}
				n++
			}
			if n < 3 {
				n++
			}
			for i := 0; i < n; i++ {
				out = append(out, c01Child(c, kit.Leaf, cns, names[i], "1"))
			}
			status["ready"] = int64(n)
		}
		if hook == "echoStatus" {
			status["names"] = strings.Join(kit.SortedKeys(observed), ",")
		}
		if c.TwoKinds && hook != "static0" {
			out = append(out, c01Child(c, kit.CoreWidget, cns, "a", "1"))
		}
		if c.GenSel {
			// a hook that echoes the labels of what it observed returns the generated label itself
			for _, o := range out {
				if om := o.(kit.M); kit.Name(om) == "b" {
					kit.Labels(om, "controller-uid", kit.Str(req, "parent", "metadata", "uid"))
				}
			}
		}
		if c.Cluster && c.OtherNS {
			// a cluster-scoped parent with children in two namespaces: every desired Leaf has a twin with the
			// same name in n2
			for _, o := range append(kit.L{}, out...) {
				if om := o.(kit.M); om["kind"] == "Leaf" {
					out = append(out, c01Child(c, kit.Leaf, "n2", kit.Name(om), kit.Str(om, "spec", "v")))
				}
			}
		}
		if out == nil {
			out = kit.L{}
		}
		return out, status
	}
}

var c01Outcome string

func c01Run(c c01Case) []mc.Finding {
	var f []mc.Finding
	bad := func(key, format string, a ...interface{}) {
		f = append(f, mc.Finding{Key: "C01:" + key, Msg: fmt.Sprintf("%+v: ", c) + fmt.Sprintf(format, a...)})
	}
	pk, pns, cns := kit.Thing, "n1", "n1"
	if c.Cluster {
		pk, pns = kit.CThing, ""
	}
	kinds := []*sim.Kind{kit.Leaf}
	if c.TwoKinds {
		kinds = append(kinds, kit.CoreWidget)
	}
	o := ccOpt{parent: pk, children: kinds, generateSel: c.GenSel, finalize: c.Finalize, ssa: c.SSA}
	if c.Method != "<unset>" {
		o.methods = map[string]v1alpha1.ChildUpdateMethod{}
		for _, k := range kinds {
			o.methods[k.Resource] = v1alpha1.ChildUpdateMethod(c.Method)
		}
	}
	w := newCWorld(o, false)
	parent := kit.Obj(pk, pns, "p")
	kit.Field(parent, "1", "spec", "v")
	kit.Field(parent, int64(2), "spec", "replicas")
	if !c.GenSel {
		kit.Field(parent, kit.M{"matchLabels": kit.M{"app": "x"}}, "spec", "selector")
		// documented obligation for rolling updates without generateSelector: ControllerRevisions are found
		// through the labels of spec.template, which must satisfy the parent's own selector
		kit.Field(parent, kit.M{"app": "x"}, "spec", "template", "metadata", "labels")
	}
	puid := w.Sim.Seed(parent)
	key := parentKey(pns, "p")
	prog := c01Program(c, "static2", cns)
	h := world.JSON(func(req map[string]interface{}) interface{} {
		ch, st := prog(req)
		return kit.M{"children": ch, "status": st}
	})
	w.Hooks.Handle("/cc/sync", h)
	w.Hooks.Handle("/cc/finalize", h)
	w.DeliverAll()
	// phase 0: the real create path produces a and b (so that last-applied / SSA ownership are genuine) ...
	for i := 0; i < 3; i++ {
		if err, p, stack := w.syncKey(key); err != nil || p != nil {
			if c.Cluster && strings.HasPrefix(c.Method, "Rolling") && err != nil && strings.Contains(err.Error(), "an empty namespace may not be set during creation") {
				// ControllerRevisions are namespaced and are created in the parent's (empty) namespace
				bad("cluster-parent-rolling:controllerrevision-without-namespace", "every sync fails, nothing converges: %v", err)
				c01Outcome = "cluster-parent-rolling"
				return f
			}
			bad("setup", "bootstrap sync failed: %v %v %s", err, p, stack)
			return f
		}
		w.DeliverAll()
	}
	// ... then the environment shapes the initial cluster contents
	matchK, matchV := "app", "x"
	if c.GenSel {
		matchK, matchV = "controller-uid", puid
	}
	for i, name := range []string{"a", "b"} {
		switch c.Slots[i] {
		case "absent":
			w.Sim.Remove(kit.Leaf, cns, name)
		case "owned-drifted":
			w.Sim.Edit(kit.Leaf, cns, name, func(o map[string]interface{}) {
				kit.Field(o, "0", "spec", "v")
				kit.Field(o, kit.L{"x"}, "spec", "args")
			})
		case "owned+foreign":
			w.Sim.Edit(kit.Leaf, cns, name, func(o map[string]interface{}) { kit.Field(o, "x", "spec", "f") })
		case "orphan-plainref":
			// nobody controls it, but it still lists the parent as a plain owner
			w.Sim.Edit(kit.Leaf, cns, name, func(o map[string]interface{}) {
				kit.Owners(o, kit.M{"apiVersion": pk.APIVersion(), "kind": pk.Kind, "name": "p", "uid": puid})
			})
		case "orphan", "orphan-drifted":
			w.Sim.Edit(kit.Leaf, cns, name, func(o map[string]interface{}) {
				delete(o["metadata"].(map[string]interface{}), "ownerReferences")
				if c.Slots[i] == "orphan-drifted" {
					kit.Field(o, "0", "spec", "v")
				}
			})
		}
	}
	if c.TwoKinds {
		w.Sim.Remove(kit.CoreWidget, cns, "a")
	}
	if c.Stale {
		w.Sim.Seed(kit.Labels(kit.Owners(kit.Obj(kit.Leaf, cns, "zz"), kit.OwnerRef(pk, "p", puid, true)), matchK, matchV))
	}
	if c.Foreign {
		q := kit.Obj(pk, pns, "q")
		kit.Field(q, "uid-q", "metadata", "uid")
		w.Sim.Seed(q) // the other controller's parent exists (otherwise the garbage collector would reap its child)
		w.Sim.Seed(kit.Labels(kit.Owners(kit.Obj(kit.Leaf, cns, "ff"), kit.OwnerRef(pk, "q", "uid-q", true)), matchK, matchV))
	}
	if c.OtherNS && !c.Cluster {
		w.Sim.Seed(kit.Labels(kit.Obj(kit.Leaf, "n2", "a"), matchK, matchV))
	}
	prog = c01Program(c, c.Hook, cns)
	w.DeliverAll()
	// main loop
	desiredCount := 4
	N := 3*desiredCount + 6
	converged := -1
	for round := 0; round < N; round++ {
		w.Sim.ResetLog()
		fp := vcache.TakeFingerprint()
		err, p, stack := w.syncKey(key)
		if p != nil {
			bad("panic", "panic in round %d: %v\n%s", round, p, stack)
			return f
		}
		if e := fp.Verify(); e != nil {
			bad("cache-mutated", "%v", e)
		}
		if err != nil {
			bad("sync-error", "round %d: %v", round, err)
			return f
		}
		writes := 0
		for _, r := range w.Sim.Log {
			if r.Mutating() && (r.Applied || r.Code < 300) && r.Kind != world.RevisionKind {
				writes++
			}
		}
		var delivered int
		if round < c.Partial {
			// stale caches between syncs: only the first stale entry is delivered
			if st := w.Stale(); len(st) > 0 {
				w.Deliver(st[0].Kind, st[0].NS, st[0].Name, false)
				delivered = len(st)
			}
		} else {
			delivered = w.DeliverAll()
		}
		w.Sim.GC()
		delivered += w.DeliverAll() * 0
		if writes == 0 && delivered == 0 && len(w.Stale()) == 0 {
			converged = round
			break
		}
	}
	if converged < 0 {
		bad("no-convergence", "not quiescent after %d rounds; last log: %v", N, w.Sim.Log)
		c01Outcome = "diverged"
		return f
	}
	c01Outcome = fmt.Sprintf("rounds=%d", converged)
	// fixpoint: the hook's desired set evaluated on the final cluster
	w.Hooks.Reset()
	w.Sim.ResetLog()
	before := w.Sim.Dump(false)
	if err, p, _ := w.syncKey(key); err != nil || p != nil {
		bad("quiescence-sync", "extra sync failed: %v %v", err, p)
		return f
	}
	if after := w.Sim.Dump(false); after != before {
		bad("not-quiescent:store-changed", "a further sync changed the API server content")
	}
	for _, r := range w.Sim.Log {
		if r.Mutating() && r.Kind != world.RevisionKind && r.Kind != pk {
			bad("not-quiescent:child-request", "a further sync sent %s", r)
		}
	}
	var lastCall *world.HookCall
	for _, hc := range w.Hooks.Calls {
		if hc.Path == "/cc/sync" {
			lastCall = hc
		}
	}
	if lastCall == nil {
		bad("no-hook-call", "no sync hook call in the final sync")
		return f
	}
	desired, _ := prog(lastCall.Parsed)
	want := map[string]kit.M{}
	for _, d := range desired {
		dm := d.(kit.M)
		ns := kit.NS(dm)
		if ns == "" && !c.Cluster {
			ns = pns // a child returned without a namespace belongs in the parent's
		}
		want[kit.Str(dm, "kind")+"/"+ns+"/"+kit.Name(dm)] = dm
	}
	got := map[string]kit.M{}
	for _, k := range kinds {
		for _, obj := range w.Sim.All(k) {
			if kit.ControllerUID(obj) == puid && (c.Cluster || kit.NS(obj) == pns) {
				got[k.Kind+"/"+kit.NS(obj)+"/"+kit.Name(obj)] = obj
			}
		}
	}
	var wk, gk []string
	for k := range want {
		wk = append(wk, k)
	}
	for k := range got {
		gk = append(gk, k)
	}
	sort.Strings(wk)
	sort.Strings(gk)
	if fmt.Sprint(wk) != fmt.Sprint(gk) {
		bad("owned-set", "owned children %v, hook desires %v", gk, wk)
	}
	updates := c.SSA || c.Method == "InPlace" || c.Method == "RollingInPlace" || c.Method == "Recreate" || c.Method == "RollingRecreate"
	if updates {
		for k, d := range want {
			if g := got[k]; g != nil {
				if kit.JSON(kit.Get(g, "spec", "v")) != kit.JSON(kit.Get(d, "spec", "v")) || kit.JSON(kit.Get(g, "spec", "args")) != kit.JSON(kit.Get(d, "spec", "args")) {
					bad("field-value", "%s spec=%s, hook specified %s", k, kit.JSON(kit.Get(g, "spec")), kit.JSON(kit.Get(d, "spec")))
				}
			}
		}
	}
	// objects that are none of our business are untouched
	if c.Foreign {
		if o := w.Sim.Get(kit.Leaf, cns, "ff"); o == nil || kit.ControllerUID(o) != "uid-q" {
			bad("foreign-touched", "foreign-owned look-alike changed: %v", o)
		}
	}
	if c.OtherNS && !c.Cluster {
		if o := w.Sim.Get(kit.Leaf, "n2", "a"); o == nil || kit.ControllerUID(o) != "" {
			bad("other-namespace-touched", "object in the other namespace changed: %v", o)
		}
	}
	return f
}

func TestVerifC01(t *testing.T) {
	r := mc.NewReport("C01", "composite")
	defer r.Write()
	thorough := mc.Thorough()
	idx := 0
	slots := c01Slot
	for _, cluster := range []bool{false, true} {
		for _, two := range []bool{false, true} {
			for _, method := range c01Methods {
				for _, gs := range []bool{true, false} {
					for _, fin := range []bool{false, true} {
						for _, ssa := range []bool{false, true} {
							for _, hook := range c01Hooks {
								for _, s0 := range slots {
									for _, s1 := range slots {
										for extras := 0; extras < 8; extras++ {
											for partial := 0; partial < 3; partial++ {
												c := c01Case{Cluster: cluster, TwoKinds: two, Method: method, GenSel: gs, Finalize: fin, SSA: ssa, Hook: hook,
													Slots: [2]string{s0, s1}, Stale: extras&1 != 0, Foreign: extras&2 != 0, OtherNS: extras&4 != 0, Partial: partial}
												if !thorough {
													// quick tier: a covering sub-product (every value of every dimension, forced-to-collide pairs)
													if partial > 0 || (two && (fin || !gs)) || (cluster && (fin || ssa && !gs)) || (extras != 0 && extras != 7 && extras != 3) ||
														(s0 != s1 && s0 != "absent" && s1 != "owned") || (fin && ssa) {
														continue
													}
												}
												idx++
												if !mc.Mine(idx) {
													continue
												}
												r.Case(c, fmt.Sprint(idx), func() []mc.Finding { return c01Run(c) })
												r.Outcome(c01Outcome)
												if idx%5003 == 0 {
													r.Sample(c)
												}
											}
										}
									}
								}
							}
						}
					}
				}
			}
		}
	}
}
