//go:build verif

package composite

import (
	"fmt"
	"net/http"
	"sort"
	"strings"
	"testing"

	"metacontroller/pkg/apis/metacontroller/v1alpha1"
	"metacontroller/pkg/controller/common"
	"metacontroller/pkg/internal/verif/kit"
	"metacontroller/pkg/internal/verif/mc"
	"metacontroller/pkg/internal/verif/sim"
	"metacontroller/pkg/internal/verif/vcache"
	"metacontroller/pkg/internal/verif/world"
)

// C01, history part: the converged cluster is a function of the parent's current spec (and the hook), not of
// the way it got there. Explicit-state search over CHANGES of the desired state (every single-field change of
// the parent spec from every reachable spec: values changed, map keys dropped, maps emptied, list-map items
// dropped, keys that come and go - labels, annotations, status - scale up / down) and environment events
// (child deleted, orphaned, drifted). After every event the real controller is synced to quiescence and the
// store is compared with the store of a FRESH world brought up directly with the same spec (differential
// oracle, no hand-written expected value).

type histSpec struct {
	V        string // "1" | "2"
	Replicas int    // 1 | 2
	Extra    string // child spec.extra: "both" {a,b} | "one" {a} | "empty" {} | "absent"
	Ports    string // child spec.ports (list of maps keyed by name): "two" | "one" | "none"
	Status   bool   // the desired child carries a status key (a hook echoing what it observed)
	Ann      bool   // the desired child carries an annotation of the hook's own
	Lbl      bool   // the desired child carries an extra label
	Echo     string // read-modify-return hook: "" plain; "annotations": the desired child carries every annotation of the child it observed (incl. metacontroller's own record); "full": its whole metadata and status (uid, resourceVersion, ownerReferences, ...)
}

func (s histSpec) key() string { return fmt.Sprintf("%+v", s) }

func histSpecOf(req kit.M) histSpec {
	g := func(k string) string { return kit.Str(req, "parent", "spec", k) }
	n, _ := kit.Get(req, "parent", "spec", "replicas").(int64)
	b := func(k string) bool { v, _ := kit.Get(req, "parent", "spec", k).(bool); return v }
	return histSpec{V: g("v"), Replicas: int(n), Extra: g("extra"), Ports: g("ports"), Status: b("status"), Ann: b("ann"), Lbl: b("lbl"), Echo: g("echo")}
}

func (s histSpec) into(o kit.M) {
	kit.Field(o, s.V, "spec", "v")
	kit.Field(o, int64(s.Replicas), "spec", "replicas")
	kit.Field(o, s.Extra, "spec", "extra")
	kit.Field(o, s.Ports, "spec", "ports")
	kit.Field(o, s.Status, "spec", "status")
	kit.Field(o, s.Ann, "spec", "ann")
	kit.Field(o, s.Lbl, "spec", "lbl")
	kit.Field(o, s.Echo, "spec", "echo")
}

// histChildren is the hook program: a pure function of the parent spec it is shown.
func histChildren(s histSpec, genSel bool, observed kit.M) kit.L {
	out := kit.L{}
	for i := 0; i < s.Replicas; i++ {
		o := kit.Obj(kit.Leaf, "", []string{"a", "b"}[i])
		kit.Field(o, s.V, "spec", "v")
		switch s.Extra {
		case "both":
			kit.Field(o, kit.M{"a": int64(1), "b": int64(2)}, "spec", "extra")
		case "one":
			kit.Field(o, kit.M{"a": int64(1)}, "spec", "extra")
		case "empty":
			kit.Field(o, kit.M{}, "spec", "extra")
		}
		switch s.Ports {
		case "two":
			kit.Field(o, kit.L{kit.M{"name": "p1", "port": int64(1)}, kit.M{"name": "p2", "port": int64(2)}}, "spec", "ports")
		case "one":
			kit.Field(o, kit.L{kit.M{"name": "p1", "port": int64(1)}}, "spec", "ports")
		}
		if s.Status {
			o["status"] = kit.M{}
		}
		if ob, ok := observed[kit.Name(o)].(kit.M); ok && s.Echo != "" {
			if s.Echo == "full" {
				// the hook took the object it was shown and only set the fields it cares about
				md := kit.Copy(kit.Map(ob, "metadata"))
				for k, v := range kit.Map(o, "metadata") {
					if k != "labels" && k != "annotations" {
						md[k] = v
					}
				}
				o["metadata"] = md
				if st, ok := ob["status"]; ok {
					o["status"] = st
				}
			} else {
				for k, v := range kit.Map(ob, "metadata", "annotations") {
					kit.Ann(o, k, fmt.Sprint(v))
				}
			}
		}
		if s.Ann {
			kit.Ann(o, "ex.io/note", "n")
		}
		if s.Lbl {
			kit.Labels(o, "tier", "t")
		}
		if !genSel {
			kit.Labels(o, "app", "x")
		}
		out = append(out, o)
	}
	return out
}

var histSSA bool

// one-shot faults armed together with a spec change: the next hook call answers 500 / the next child write gets a 500
var histHookFaults int
var histWriteFaults int
var histWriteFaultCode = 500

// histLastErr: the error of the last sync of the last settle (nil = it succeeded)
var histLastErr error

type histCfg struct {
	Method string // "InPlace", "Recreate", "<unset>"
	SSA    bool
	GenSel bool
}

type histSys struct {
	cfg      histCfg
	w        *cworld
	spec     histSpec
	findings []mc.Finding
	hist     []string
	refs     map[string]string
	full     bool
	// foreign: someone else has set spec.extra.b on child a (to the very value the hook uses when it desires b)
	// while the hook did not desire b, and nothing has taken the field over or removed it since. A field of
	// someone else is kept; once the hook has desired it, it is the hook's and goes when the hook drops it.
	foreign bool
}

func histForeignEdit(w *cworld) {
	w.Sim.Edit(kit.Leaf, "n1", "a", func(o map[string]interface{}) { kit.Field(o, int64(2), "spec", "extra", "b") })
}

func histWorld(cfg histCfg, s histSpec) *cworld {
	o := ccOpt{parent: kit.Thing, children: []*sim.Kind{kit.Leaf}, generateSel: cfg.GenSel, ssa: cfg.SSA}
	if cfg.Method != "<unset>" {
		o.methods = map[string]v1alpha1.ChildUpdateMethod{"leafs": v1alpha1.ChildUpdateMethod(cfg.Method)}
	}
	w := newCWorld(o, false)
	p := kit.Obj(kit.Thing, "n1", "p")
	kit.Field(p, "puid", "metadata", "uid")
	if !cfg.GenSel {
		kit.Field(p, kit.M{"matchLabels": kit.M{"app": "x"}}, "spec", "selector")
	}
	s.into(p)
	w.Sim.Seed(p)
	good := world.JSON(func(req map[string]interface{}) interface{} {
		sp := histSpecOf(req)
		return kit.M{"status": kit.M{"v": sp.V}, "children": histChildren(sp, cfg.GenSel, kit.Map(req, "children", "Leaf.v1"))}
	})
	w.Hooks.Handle("/cc/sync", func(hc *world.HookCall) (int, http.Header, []byte, error) {
		if histHookFaults > 0 {
			histHookFaults--
			return 500, nil, []byte("the hook is having a bad moment"), nil
		}
		return good(hc)
	})
	w.DeliverAll()
	return w
}

// settle syncs to quiescence under a fair environment (caches delivered, garbage collected, every child's
// own controller keeps its status up). Returns false when not quiescent within the bound.
func histSettle(w *cworld, bad func(key, format string, a ...interface{})) bool {
	for round := 0; round < 10; round++ {
		w.Sim.ResetLog()
		w.Hooks.Reset() // (one world per search: do not let the recorded hook calls pile up)
		hookFaultsBefore := histHookFaults
		writeFaultsBefore := histWriteFaults
		w.Sim.Plan = func(r *sim.Request) *sim.Fault {
			if histWriteFaults > 0 && r.Kind == kit.Leaf && r.Mutating() {
				histWriteFaults--
				if histWriteFaultCode == 422 {
					return &sim.Fault{Code: 422, Reason: "Invalid"}
				}
				return &sim.Fault{Code: 500, Reason: "InternalError"}
			}
			return nil
		}
		fp := vcache.TakeFingerprint()
		err, p, stack := w.syncKey("n1/p")
		if p != nil {
			bad("panic", "panic %v\n%s", p, stack)
			return false
		}
		if e := fp.Verify(); e != nil {
			bad("cache-mutated", "%v", e)
		}
		// (a sync that fails - e.g. an optimistic-lock conflict because the hook echoed a stale resourceVersion - is
		// retried by the work queue; what counts here is that the retries end in quiescence. C12 judges errors.)
		writes := 0
		w.Sim.Plan = nil
		histLastErr = err
		if err != nil {
			writes++
		}
		if histWriteFaults < writeFaultsBefore && err == nil {
			// (it is the error that makes the work queue come back: a refused write that is not reported is never
			// retried unless something else happens to wake the parent)
			bad("refused-write-not-reported", "a child write was refused by the API server (%d) and the sync reported success", histWriteFaultCode)
		}
		if histHookFaults < hookFaultsBefore {
			// the hook did not answer in this sync: nothing may be written for the children on its behalf
			for _, r := range w.Sim.Log {
				if r.Kind == kit.Leaf && r.Mutating() {
					bad("child-write-without-hook-answer", "the sync hook answered 500 and %s was sent all the same", r)
				}
			}
			if err == nil {
				bad("hook-failure-not-reported", "the sync hook answered 500 and the sync reported success")
			}
		}
		for _, r := range w.Sim.Log {
			if r.Mutating() {
				writes++
			}
			// an update of a child never touches what the child's own controller reports (the environment would
			// repair it a moment later, so this is checked on the request itself)
			if r.Kind == kit.Leaf && r.Verb == "update" && r.Applied && kit.JSON(kit.Get(r.Pre, "status")) != kit.JSON(kit.Get(r.Post, "status")) {
				bad("child-status-changed", "%s changed the child's status from %s to %s", r, kit.JSON(kit.Get(r.Pre, "status")), kit.JSON(kit.Get(r.Post, "status")))
			}
			// ... and never gives up a child the parent controls (every child here matches the selector)
			if r.Kind == kit.Leaf && (r.Verb == "update" || r.Verb == "apply") && r.Applied && kit.ControllerUID(r.Pre) == "puid" && kit.ControllerUID(r.Post) != "puid" {
				bad("own-child-orphaned", "%s removed the parent's controller reference from its own child (owner references now %v)", r, kit.Get(r.Post, "metadata", "ownerReferences"))
			}
		}
		w.DeliverAll()
		w.Sim.GC()
		env := 0
		for _, c := range w.Sim.All(kit.Leaf) {
			if kit.Get(c, "status", "ready") != true && kit.Get(c, "metadata", "deletionTimestamp") == nil {
				w.Sim.Edit(kit.Leaf, kit.NS(c), kit.Name(c), func(o map[string]interface{}) { o["status"] = map[string]interface{}{"ready": true} })
				env++
			}
		}
		w.DeliverAll()
		if writes == 0 && env == 0 {
			return true
		}
	}
	return false
}

// pruneEmpty drops empty maps (server-side apply: whether an emptied map survives as {} is decided by the API
// server's structured merge, which the simulated server only approximates - not compared).
func pruneEmpty(v interface{}) interface{} {
	m, ok := v.(kit.M)
	if !ok {
		return v
	}
	out := kit.M{}
	for k, x := range m {
		x = pruneEmpty(x)
		if xm, ok := x.(kit.M); ok && len(xm) == 0 {
			continue
		}
		out[k] = x
	}
	return out
}

func histEssence(w *cworld, namesOnly bool) string {
	var parts []string
	for _, o := range w.Sim.All(nil) {
		e := kit.M{"kind": o["kind"], "ns": kit.NS(o), "name": kit.Name(o)}
		var owners []string
		for _, r := range kit.List(o, "metadata", "ownerReferences") {
			owners = append(owners, fmt.Sprintf("%v/%v/%v", kit.Get(r, "kind"), kit.Get(r, "name"), kit.Get(r, "controller")))
		}
		e["owners"] = owners
		if !namesOnly || o["kind"] == "Thing" {
			e["labels"] = kit.Get(o, "metadata", "labels")
			e["annotations"] = kit.Get(o, "metadata", "annotations")
			e["spec"] = o["spec"]
			if o["kind"] == "Leaf" && histSSA {
				e["spec"] = pruneEmpty(o["spec"])
			}
			st := o["status"]
			if o["kind"] == "Thing" {
				// the generation counts the edits of this history: keep only whether it was observed
				if m, ok := st.(kit.M); ok {
					m = kit.Copy(m)
					m["observedGeneration"] = fmt.Sprint(m["observedGeneration"] == kit.Get(o, "metadata", "generation"))
					st = m
				}
			}
			e["status"] = st
			e["finalizers"] = kit.Get(o, "metadata", "finalizers")
		}
		parts = append(parts, kit.JSON(e))
	}
	sort.Strings(parts)
	return strings.Join(parts, "\n")
}

func (x *histSys) bad(key, format string, a ...interface{}) {
	x.findings = append(x.findings, mc.Finding{Key: histProp + ":history:" + key, Msg: fmt.Sprintf("%+v spec %+v after %v: ", x.cfg, x.spec, x.hist) + fmt.Sprintf(format, a...)})
}

func (x *histSys) namesOnly() bool { return x.cfg.Method == "<unset>" && !x.cfg.SSA }

// reference: the store of a fresh world brought up directly with this spec.
func (x *histSys) reference(s histSpec) string {
	rk := s.key()
	if x.foreign {
		rk += "|foreign"
	}
	if r, ok := x.refs[rk]; ok {
		return r
	}
	w := histWorld(x.cfg, s)
	common.VerifResetSSAMemo()
	ok := histSettle(w, func(key, format string, a ...interface{}) {
		x.bad("reference:"+key, format, a...)
	})
	if ok && x.foreign {
		// ... and then the same edit by someone else
		histForeignEdit(w)
		w.DeliverAll()
		ok = histSettle(w, func(key, format string, a ...interface{}) {
			x.bad("reference:"+key, format, a...)
		})
	}
	if !ok {
		x.bad("reference:no-convergence", "a fresh world with this spec does not become quiescent")
	}
	r := histEssence(w, x.namesOnly())
	x.refs[rk] = r
	common.VerifResetSSAMemo()
	return r
}

type histSnap struct {
	snap    *world.Snap
	spec    histSpec
	hist    []string
	foreign bool
}

func (x *histSys) Snapshot() interface{} {
	return &histSnap{x.w.Base.Snapshot(), x.spec, append([]string{}, x.hist...), x.foreign}
}

func (x *histSys) Restore(s interface{}) {
	hs := s.(*histSnap)
	x.w.Base.Restore(hs.snap)
	common.VerifResetSSAMemo()
	x.spec = hs.spec
	x.foreign = hs.foreign
	x.hist = append([]string{}, hs.hist...)
}

func (x *histSys) Events() []string {
	var ev []string
	add := func(dim, cur string, vals ...string) {
		for _, v := range vals {
			if v != cur {
				ev = append(ev, dim+"="+v)
			}
		}
	}
	add("v", x.spec.V, "1", "2")
	add("replicas", fmt.Sprint(x.spec.Replicas), "1", "2")
	add("extra", x.spec.Extra, "both", "one", "empty", "absent")
	add("ports", x.spec.Ports, "two", "one", "none")
	if !x.cfg.SSA {
		// (server-side apply of a status key to a kind without a status subresource is left to the API server's
		// own field-ownership rules, which the simulated server only approximates)
		add("status", fmt.Sprint(x.spec.Status), "true", "false")
	}
	if !x.foreign {
		add("echo", x.spec.Echo, "", "annotations", "full")
	}
	// every change of the desired state also together with a one-shot fault: the hook fails once / one child
	// write is refused once - the retries must end in the same cluster
	for _, e := range append([]string{}, ev...) {
		ev = append(ev, e+"!hook-500", e+"!write-500", e+"!write-422")
	}
	if x.full {
		// (a hook that hands back what it observed keeps an annotation / label alive by itself once it is there: with
		// such a hook the converged state legitimately depends on the past, so these two are only toggled while the
		// hook does not echo them)
		if x.spec.Echo == "" {
			add("ann", fmt.Sprint(x.spec.Ann), "true", "false")
		}
		if x.spec.Echo != "full" {
			add("lbl", fmt.Sprint(x.spec.Lbl), "true", "false")
		}
	}
	ev = append(ev, "env:delete-a", "env:orphan-a")
	if !x.namesOnly() {
		ev = append(ev, "env:drift-a")
	}
	if x.cfg.Method == "InPlace" && !x.cfg.SSA && x.spec.Echo == "" && !x.foreign && (x.spec.Extra == "one" || x.spec.Extra == "empty") {
		ev = append(ev, "env:other-sets-extra-b-on-a")
	}
	return ev
}

func (x *histSys) Apply(ev string) {
	x.hist = append(x.hist, ev)
	if strings.HasPrefix(ev, "env:") {
		switch ev {
		case "env:delete-a":
			x.w.Sim.Remove(kit.Leaf, "n1", "a")
			x.foreign = false // recreated from the hook's answer alone
		case "env:other-sets-extra-b-on-a":
			histForeignEdit(x.w)
			x.foreign = true
		case "env:orphan-a":
			x.w.Sim.Edit(kit.Leaf, "n1", "a", func(o map[string]interface{}) { delete(o["metadata"].(map[string]interface{}), "ownerReferences") })
		case "env:drift-a":
			x.w.Sim.Edit(kit.Leaf, "n1", "a", func(o map[string]interface{}) { kit.Field(o, "0", "spec", "v") })
		}
	} else {
		histHookFaults, histWriteFaults = 0, 0
		if i := strings.Index(ev, "!"); i > 0 {
			switch ev[i+1:] {
			case "hook-500":
				histHookFaults = 1
			case "write-500":
				histWriteFaults, histWriteFaultCode = 1, 500
			case "write-422":
				// (an admission webhook that is not ready yet, a validation that fails once)
				histWriteFaults, histWriteFaultCode = 1, 422
			}
			ev = ev[:i]
		}
		kv := strings.SplitN(ev, "=", 2)
		switch kv[0] {
		case "v":
			x.spec.V = kv[1]
		case "replicas":
			x.spec.Replicas = int(kv[1][0] - '0')
		case "extra":
			x.spec.Extra = kv[1]
			if kv[1] == "both" || kv[1] == "absent" {
				// the hook takes the field over / drops the whole map it had applied: either way b is not
				// "someone else's field that the hook never mentioned" any more
				x.foreign = false
			}
		case "ports":
			x.spec.Ports = kv[1]
		case "status":
			x.spec.Status = kv[1] == "true"
		case "ann":
			x.spec.Ann = kv[1] == "true"
		case "lbl":
			x.spec.Lbl = kv[1] == "true"
		case "echo":
			x.spec.Echo = kv[1]
		}
		sp := x.spec
		x.w.Sim.Edit(kit.Thing, "n1", "p", func(o map[string]interface{}) { sp.into(o) })
	}
	x.w.DeliverAll()
	if !histSettle(x.w, x.bad) {
		if len(x.findings) == 0 {
			key := "no-convergence"
			switch {
			case histLastErr != nil:
				key += ":sync-keeps-failing"
			case x.spec.Echo == "full":
				key += ":hook-echoes-resourceVersion" // which makes the hook's answer differ after every write
			}
			x.bad(key, "not quiescent 10 rounds after the event (last sync error: %v)", histLastErr)
		}
		return
	}
	want := x.reference(x.spec)
	if got := histEssence(x.w, x.namesOnly()); got != want {
		x.bad("depends-on-history", "the converged cluster differs from the one a fresh start with the same spec converges to:\n--- after this history\n%s\n--- fresh start\n%s", got, want)
	}
}

func (x *histSys) Canon() string {
	// (OnDelete: the content of existing children is history by design and never written again - only the
	// set of children is compared and canonicalised)
	return fmt.Sprintf("%s|%v|", x.spec.key(), x.foreign) + mc.Hash(histEssence(x.w, x.namesOnly()))
}

func (x *histSys) TakeFindings() []mc.Finding {
	f := x.findings
	x.findings = nil
	return f
}

func TestVerifC01Hist(t *testing.T) { histExplore("C01") }

// TestVerifC05Hist: the same exploration decides C05 end to end (the three-way merge through the real sync, the
// real last-applied annotation and the API server): what was applied earlier and is no longer desired is removed,
// everything else - status, fields of others - stays; the findings are reported under C05.
func TestVerifC05Hist(t *testing.T) { histExplore("C05") }

var histProp = "C01"

func histExplore(prop string) {
	histProp = prop
	r := mc.NewReport(prop, "histories")
	defer r.Write()
	cfgs := []histCfg{{"InPlace", false, false}, {"Recreate", false, true}, {"<unset>", false, false}, {"<unset>", true, true}}
	if mc.Thorough() {
		cfgs = append(cfgs, histCfg{"InPlace", false, true}, histCfg{"InPlace", true, false}, histCfg{"Recreate", true, false})
	}
	for ci, cfg := range cfgs {
		if !mc.Mine(ci) {
			continue
		}
		histSSA = cfg.SSA
		start := histSpec{V: "1", Replicas: 2, Extra: "both", Ports: "two"}
		x := &histSys{cfg: cfg, refs: map[string]string{}, spec: start, full: mc.Thorough()}
		x.w = histWorld(cfg, start)
		common.VerifResetSSAMemo()
		if !histSettle(x.w, x.bad) || len(x.findings) > 0 {
			x.bad("setup", "initial bring-up not quiescent")
			for _, f := range x.TakeFindings() {
				r.Violate(f.Key, f.Msg, kit.M{"cfg": fmt.Sprintf("%+v", cfg)})
			}
			continue
		}
		sub := mc.NewReport(prop, "tmp")
		mc.BFSSys(sub, x, mc.BFSOpts{}, func(hist []string, ev string, fs []mc.Finding) {
			r.Outcome(strings.SplitN(ev, "=", 2)[0])
			for _, f := range fs {
				r.Violate(f.Key, f.Msg, kit.M{"cfg": fmt.Sprintf("%+v", cfg), "events": append(append([]string{}, hist...), ev)})
			}
		})
		r.States += sub.States
		r.Transitions += sub.Transitions
		r.Evaluations += sub.Transitions
		r.Distinct += sub.Transitions
		if !sub.Exhaustive {
			r.Capped(fmt.Sprintf("%+v: %s", cfg, sub.Bound))
		} else {
			r.Infof("%+v: %d states, %d transitions, %s", cfg, sub.States, sub.Transitions, sub.Bound)
		}
		r.Sample(kit.M{"cfg": fmt.Sprintf("%+v", cfg), "states": sub.States, "transitions": sub.Transitions})
	}
}
