//go:build verif

package composite

import (
	"fmt"
	"net/http"
	"reflect"
	"testing"

	"metacontroller/pkg/internal/verif/kit"
	"metacontroller/pkg/internal/verif/mc"
	"metacontroller/pkg/internal/verif/sim"
	"metacontroller/pkg/internal/verif/world"
)

// C11, rolling parents: with a rolling update strategy the controller adds its own "Updated" condition to the
// status the hook returned. Everything else of the hook's status - other conditions (in the hook's order),
// other fields - must arrive unchanged, observedGeneration is the generation sent to the hook, the status is
// the one computed for the LATEST revision (the hook is called once per live revision), and the write is
// skipped when the stored status already equals it. Exhaustive over hook status shapes x rollout phases x
// method x generateSelector, each run twice (the second sync must not write).

var c11rShapes = []string{"null", "empty", "flat", "ready", "updated-first", "updated-middle", "updated-only", "no-conditions-list", "nested"}
var c11rPhases = []string{"on-latest", "progressing", "waiting", "progressing-then-on-latest"}

type c11rCase struct {
	Shape  string
	Phase  string
	Method string
	GenSel bool
}

func c11rStatus(shape, ver string) interface{} {
	ready := kit.M{"type": "Ready", "status": "True", "reason": "AllGood", "message": "m", "lastTransitionTime": "2020-01-01T00:00:00Z"}
	own := kit.M{"type": "Updated", "status": "Unknown", "reason": "HookSaysSo", "message": "from the hook"}
	other := kit.M{"type": "Other", "status": "False"}
	switch shape {
	case "null":
		return nil
	case "empty":
		return kit.M{}
	case "flat":
		return kit.M{"from": ver, "n": int64(3)}
	case "ready":
		return kit.M{"from": ver, "conditions": kit.L{ready}}
	case "updated-first":
		return kit.M{"from": ver, "conditions": kit.L{own, ready}}
	case "updated-middle":
		return kit.M{"from": ver, "conditions": kit.L{ready, own, other}}
	case "updated-only":
		return kit.M{"conditions": kit.L{own}}
	case "no-conditions-list":
		return kit.M{"from": ver, "conditions": kit.L{}}
	case "nested":
		return kit.M{"from": ver, "a": kit.M{"b": kit.L{int64(1), "x"}}, "conditions": kit.L{other, ready}}
	}
	panic(shape)
}

// c11rModel: the status the statement (plus the documented rollout condition) asks for; the condition's message
// is free text and is compared for presence only.
func c11rModel(shape, ver string, gen int64, condStatus, reason string) kit.M {
	t := kit.M{}
	if st, ok := c11rStatus(shape, ver).(kit.M); ok {
		t = kit.Copy(st)
	}
	t["observedGeneration"] = gen
	upd := kit.M{"type": "Updated", "status": condStatus, "reason": reason}
	conds, _ := t["conditions"].(kit.L)
	placed := false
	var out kit.L
	for _, c := range conds {
		if cm, _ := c.(kit.M); cm["type"] == "Updated" {
			out = append(out, upd)
			placed = true
		} else {
			out = append(out, c)
		}
	}
	if !placed {
		out = append(out, upd)
	}
	t["conditions"] = out
	return t
}

func c11rScrub(st interface{}) interface{} {
	m, ok := st.(kit.M)
	if !ok {
		return st
	}
	m = kit.Copy(m)
	var out kit.L
	for _, c := range kit.List(m, "conditions") {
		cm, _ := c.(kit.M)
		if cm["type"] == "Updated" {
			cm = kit.Copy(cm)
			if s, _ := cm["message"].(string); s != "" {
				delete(cm, "message")
			}
			delete(cm, "lastTransitionTime")
			delete(cm, "lastUpdateTime")
		}
		out = append(out, cm)
	}
	if out != nil {
		m["conditions"] = out
	}
	return m
}

var c11rOutcome string

func c11rRun(c c11rCase) []mc.Finding {
	var f []mc.Finding
	bad := func(key, format string, a ...interface{}) {
		f = append(f, mc.Finding{Key: "C11:rolling:" + key, Msg: fmt.Sprintf("%+v: ", c) + fmt.Sprintf(format, a...)})
	}
	x := newRollWorld(2, false, "widgets", c.Method, true, c.GenSel)
	inner := rollHook(x.ck, x.cns, c.GenSel)
	x.Hooks.Handle("/cc/sync", func(call *world.HookCall) (int, http.Header, []byte, error) {
		code, hdr, body, herr := inner(call)
		var resp kit.M
		if err := jsonUnmarshal(body, &resp); err != nil {
			panic(err)
		}
		ver, _ := kit.Get(call.Parsed, "parent", "spec", "template", "ver").(string)
		if st := c11rStatus(c.Shape, ver); st != nil {
			resp["status"] = st
		} else {
			delete(resp, "status")
		}
		return code, hdr, []byte(kit.JSON(resp)), herr
	})
	step := func(what string) bool {
		err, p, stack := x.round()
		if p != nil {
			bad("panic", "%s: panic %v\n%s", what, p, stack)
			return false
		}
		if err != nil {
			bad("sync-error", "%s: %v", what, err)
			return false
		}
		return true
	}
	// bring-up
	for i := 0; i < 8; i++ {
		if !step("bring-up") {
			return f
		}
	}
	if !x.allAt("v1", 2) {
		bad("setup", "bring-up did not produce two children at v1")
		return f
	}
	ver, wantStatus, wantReason := "v1", "True", "OnLatestRevision"
	switch c.Phase {
	case "progressing", "waiting", "progressing-then-on-latest":
		x.edit("tpl", "v2")
		ver, wantStatus, wantReason = "v2", "False", "RolloutProgressing"
	}
	switch c.Phase {
	case "waiting":
		// the first move happens, the moved child does not become healthy
		x.Sim.ResetLog()
		if err, p, stack := x.syncKey(x.key); err != nil || p != nil {
			bad("sync-error", "first rollout sync: %v %v %s", err, p, stack)
			return f
		}
		x.DeliverAll()
		x.Sim.GC()
		x.DeliverAll()
		wantReason = "RolloutWaiting"
	case "progressing-then-on-latest":
		for i := 0; i < 10; i++ {
			if !step("rollout") {
				return f
			}
		}
		if !x.allAt("v2", 2) {
			bad("setup", "rollout did not complete")
			return f
		}
		wantStatus, wantReason = "True", "OnLatestRevision"
	}
	// the judged sync
	judge := func(what string, mayWrite bool) {
		before := x.Sim.Get(x.pk, x.pns, "p")
		x.Sim.ResetLog()
		x.Hooks.Calls = nil
		err, p, stack := x.syncKey(x.key)
		if p != nil {
			bad("panic", "%s: panic %v\n%s", what, p, stack)
			return
		}
		if err != nil {
			bad("sync-error", "%s: %v", what, err)
			return
		}
		if len(x.Hooks.Calls) == 0 {
			bad("hook-calls", "%s: no hook call", what)
			return
		}
		var hookGen int64
		for _, hc := range x.Hooks.Calls {
			if g, _ := kit.Get(hc.Parsed, "parent", "metadata", "generation").(int64); g > hookGen {
				hookGen = g
			}
		}
		target := c11rModel(c.Shape, ver, hookGen, wantStatus, wantReason)
		writes := 0
		for _, r := range x.Sim.Log {
			if r.Kind != x.pk || !r.Mutating() {
				continue
			}
			writes++
			if r.Verb != "update" || r.Sub != "status" {
				bad("endpoint", "%s: parent written through %s %q instead of the status endpoint", what, r.Verb, r.Sub)
				continue
			}
			if !reflect.DeepEqual(without(r.Body), without(r.Pre)) {
				bad("body-not-live", "%s: status PUT body differs from the live object outside status", what)
			}
		}
		after := x.Sim.Get(x.pk, x.pns, "p")
		if got := c11rScrub(kit.Get(after, "status")); !reflect.DeepEqual(got, interface{}(target)) {
			key := "status-content"
			if gm, _ := got.(kit.M); gm != nil && gm["from"] != nil && gm["from"] != target["from"] {
				key = "status-of-another-revision"
			}
			bad(key, "%s: stored status\n  %s\nwant (hook status for %s + observedGeneration %d + Updated=%s/%s, everything else as the hook sent it)\n  %s", what, kit.JSON(got), ver, hookGen, wantStatus, wantReason, kit.JSON(target))
		}
		for _, cnd := range kit.List(after, "status", "conditions") {
			if cm, _ := cnd.(kit.M); cm["type"] == "Updated" {
				if s, _ := cm["message"].(string); s == "" || s == "from the hook" {
					bad("status-content", "%s: the rollout condition carries message %q", what, s)
				}
			}
		}
		if !reflect.DeepEqual(without(before, "resourceVersion"), without(after, "resourceVersion")) {
			bad("parent-altered", "%s: parent changed outside status", what)
		}
		// (the condition's message may legitimately change from one sync to the next: a write is needless only
		// when it stores what was stored already)
		if !mayWrite && writes > 0 && reflect.DeepEqual(kit.Get(before, "status"), kit.Get(after, "status")) {
			bad("needless-write", "%s: status already as wanted but %d parent writes sent", what, writes)
		}
		c11rOutcome = fmt.Sprintf("%s/%s writes=%d", wantStatus, wantReason, writes)
	}
	judge("first", true)
	if len(f) > 0 {
		return f
	}
	if c.Phase == "progressing" {
		// a second sync would legitimately move on (the next child / waiting); only the content is judged again
		return f
	}
	x.DeliverAll()
	judge("repeat", false)
	return f
}

func TestVerifC11Roll(t *testing.T) {
	r := mc.NewReport("C11", "rolling-status")
	defer r.Write()
	methods := []string{"RollingInPlace", "RollingRecreate"}
	mc.Product(r, []int{len(c11rShapes), len(c11rPhases), len(methods), 2}, func(idx int, d []int) {
		c := c11rCase{Shape: c11rShapes[d[0]], Phase: c11rPhases[d[1]], Method: methods[d[2]], GenSel: d[3] == 1}
		r.Case(c, fmt.Sprint(idx), func() []mc.Finding { return c11rRun(c) })
		r.Outcome(c11rOutcome)
		if idx%17 == 0 {
			r.Sample(c)
		}
	})
}

var _ = sim.ResKey
