//go:build verif

package composite

import (
	"testing"

	"metacontroller/pkg/apis/metacontroller/v1alpha1"
	"metacontroller/pkg/internal/verif/kit"
	"metacontroller/pkg/internal/verif/sim"
	"metacontroller/pkg/internal/verif/world"
)

func TestVerifSmoke(t *testing.T) {
	w := newCWorld(ccOpt{parent: kit.Thing, children: []*sim.Kind{kit.Leaf}, generateSel: true,
		methods: map[string]v1alpha1.ChildUpdateMethod{"leafs": v1alpha1.ChildUpdateInPlace}}, true)
	w.Hooks.Handle("/cc/sync", world.JSON(func(req map[string]interface{}) interface{} {
		return map[string]interface{}{
			"status":   map[string]interface{}{"n": int64(1)},
			"children": []interface{}{kit.Field(kit.Obj(kit.Leaf, "", "a"), "1", "data", "v")},
		}
	}))
	w.Sim.Seed(kit.Obj(kit.Thing, "n1", "p"))
	w.DeliverAll()
	t.Logf("queue: %v", w.Q.Items())
	for i := 0; i < 3; i++ {
		err, p, st := w.syncKey("n1/p")
		t.Logf("sync %d err=%v panic=%v %s", i, err, p, st)
		for _, r := range w.Sim.Log {
			t.Logf("  %s", r)
		}
		w.Sim.ResetLog()
		t.Logf("  delivered %d", w.DeliverAll())
	}
	t.Logf("store: %s", w.Sim.Dump(false))
	t.Logf("hook calls: %d", len(w.Hooks.Calls))
}
