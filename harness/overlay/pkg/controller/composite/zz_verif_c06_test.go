//go:build verif

package composite

import (
	"fmt"
	"testing"

	"metacontroller/pkg/apis/metacontroller/v1alpha1"
	"metacontroller/pkg/internal/verif/kit"
	"metacontroller/pkg/internal/verif/mc"
	"metacontroller/pkg/internal/verif/sim"
	"metacontroller/pkg/internal/verif/vcache"
	"metacontroller/pkg/internal/verif/world"
)

// C06: each child type is changed only by the method its update strategy allows (DESIGN §4 C06).
// Full table: method x kind x difference class x child deleting x still desired x 1-2 children, one sync
// from a state produced by the real create path, then one follow-up sync.

var c06Methods = []string{"<unset>", "", "OnDelete", "Recreate", "InPlace", "RollingRecreate", "RollingInPlace", "Bogus"}
var c06Classes = []string{"equal", "owned", "foreign", "status", "sysmeta", "owned+foreign", "foreign-item-in-emptied-list"}

type c06Case struct {
	Method   string
	Kind     string
	Class    string
	Deleting bool
	Desired  bool
	N        int
	// Doomed: one more child of the same kind, no longer desired, whose DELETE the API server keeps refusing
	// (403): its failure is reported, and changes nothing for the other children
	Doomed bool
}

func c06Expected(c c06Case) (verbs []string, wantErr bool, followup []string) {
	if !c.Desired {
		if c.Deleting {
			return nil, false, nil
		}
		return []string{"delete"}, false, nil
	}
	if c.Deleting {
		return nil, false, nil
	}
	if c.Class != "owned" && c.Class != "owned+foreign" {
		return nil, false, nil
	}
	switch c.Method {
	case "<unset>", "", "OnDelete":
		return nil, false, nil
	case "Recreate", "RollingRecreate":
		return []string{"delete"}, false, []string{"create"}
	case "InPlace", "RollingInPlace":
		return []string{"update"}, false, nil
	}
	return nil, true, nil // Bogus
}

// childWrites returns the mutating requests on kind k with the given name, in log order.
func childWrites(log []*sim.Request, k *sim.Kind, name string) []*sim.Request {
	var out []*sim.Request
	for _, r := range log {
		if r.Kind == k && r.Name == name && r.Mutating() {
			out = append(out, r)
		}
	}
	return out
}

func verbsOf(rs []*sim.Request) []string {
	var v []string
	for _, r := range rs {
		v = append(v, r.Verb)
	}
	return v
}

func c06Desired(k *sim.Kind, names []string, c c06Case, second bool) kit.L {
	var out kit.L
	for _, n := range names {
		o := kit.Field(kit.Obj(k, "", n), "1", "spec", "v")
		// The status / system-metadata classes keep the hook's answer identical in both phases (so the
		// last-applied record is stable) and make the *observed* object differ only in those fields.
		switch c.Class {
		case "owned", "owned+foreign":
			if second {
				kit.Field(o, "2", "spec", "v")
			}
		case "foreign-item-in-emptied-list":
			// the hook names the list and wants nothing in it (the same answer in both phases); someone else has an
			// item of their own in it: not a difference the controller owns
			kit.Field(o, kit.L{}, "spec", "ports")
		case "status":
			kit.Field(o, int64(2), "status", "x")
		case "sysmeta":
			md := o["metadata"].(kit.M)
			md["uid"] = "zzz"
			md["generation"] = int64(77)
			md["creationTimestamp"] = "2020-02-02T02:02:02Z"
			md["selfLink"] = "/x"
			md["deletionTimestamp"] = "2020-02-02T02:02:02Z"
			md["deletionGracePeriodSeconds"] = int64(5)
		}
		out = append(out, o)
	}
	return out
}

func c06Run(c c06Case) []mc.Finding {
	var f []mc.Finding
	bad := func(key, format string, a ...interface{}) {
		f = append(f, mc.Finding{Key: "C06:" + key, Msg: fmt.Sprintf("%+v: ", c) + fmt.Sprintf(format, a...)})
	}
	k := kit.Leaf
	if c.Kind == "Widget" {
		k = kit.Widget
	}
	// (a second child kind without any strategy is declared FIRST: the strategy of a kind must not depend on the
	// rules listed before it)
	o := ccOpt{parent: kit.Thing, children: []*sim.Kind{kit.Gadget, k}, generateSel: true}
	if c.Method != "<unset>" {
		o.methodsOf = map[*sim.Kind]v1alpha1.ChildUpdateMethod{k: v1alpha1.ChildUpdateMethod(c.Method)}
	}
	// Widget cases: a third child type with the SAME Kind and plural in the core group, under the opposite kind of
	// strategy, with a child of the same name that never differs from its desired state: never written, and
	// without influence on how the child under test is treated
	var twin *sim.Kind
	if k == kit.Widget {
		twin = kit.CoreWidget
		o.children = []*sim.Kind{kit.Gadget, twin, k}
		tm := v1alpha1.ChildUpdateRecreate
		if c.Method == "Recreate" || c.Method == "RollingRecreate" {
			tm = v1alpha1.ChildUpdateInPlace
		}
		if o.methodsOf == nil {
			o.methodsOf = map[*sim.Kind]v1alpha1.ChildUpdateMethod{}
		}
		o.methodsOf[twin] = tm
	}
	withTwin := func(ch kit.L) kit.L {
		if twin != nil {
			ch = append(ch, kit.Field(kit.Obj(twin, "", "a"), "1", "spec", "v"))
		}
		return ch
	}
	w := newCWorld(o, false)
	names := []string{"a", "b"}[:c.N]
	phase := 0
	w.Hooks.Handle("/cc/sync", world.JSON(func(req map[string]interface{}) interface{} {
		switch phase {
		case 0:
			ch := c06Desired(k, names, c, false)
			if c.Doomed {
				ch = append(ch, kit.Field(kit.Obj(k, "", "zz-gone"), "1", "spec", "v"))
			}
			return kit.M{"status": kit.M{}, "children": withTwin(ch)}
		default:
			if !c.Desired {
				return kit.M{"status": kit.M{}, "children": withTwin(kit.L{})}
			}
			return kit.M{"status": kit.M{}, "children": withTwin(c06Desired(k, names, c, true))}
		}
	}))
	w.Sim.Seed(kit.Obj(kit.Thing, "n1", "p"))
	w.DeliverAll()
	// phase 0: the real create path produces the observed children
	if err, p, _ := w.syncKey("n1/p"); err != nil || p != nil {
		bad("setup", "setup sync failed: %v %v", err, p)
		return f
	}
	for _, n := range names {
		if w.Sim.Get(k, "n1", n) == nil {
			bad("setup", "setup did not create %s", n)
			return f
		}
		w.Sim.Edit(k, "n1", n, func(o map[string]interface{}) {
			if c.Class == "foreign" || c.Class == "owned+foreign" {
				kit.Field(o, "x", "spec", "f")
			}
			if c.Class == "status" {
				kit.Field(o, int64(1), "status", "x")
			}
			if c.Class == "foreign-item-in-emptied-list" {
				kit.Field(o, []interface{}{map[string]interface{}{"name": "someone-elses", "port": int64(1)}}, "spec", "ports")
			}
			if c.Deleting {
				kit.Finalizers(o, "ex.io/hold")
				kit.Deleting(o)
			}
		})
	}
	w.DeliverAll()
	observed := map[string]kit.M{}
	for _, n := range names {
		observed[n] = w.Sim.Get(k, "n1", n)
	}
	w.Sim.ResetLog()
	phase = 1
	wantVerbs, wantErr, wantFollow := c06Expected(c)
	if c.Doomed {
		wantErr = true
		w.Sim.Plan = func(r *sim.Request) *sim.Fault {
			if r.Kind == k && r.Name == "zz-gone" && r.Verb == "delete" {
				return &sim.Fault{Code: 403, Reason: "Forbidden"}
			}
			return nil
		}
		defer func() { w.Sim.Plan = nil }()
	}
	fp := vcache.TakeFingerprint()
	err, p, stack := w.syncKey("n1/p")
	if p != nil {
		bad("panic", "panic %v\n%s", p, stack)
		return f
	}
	if e := fp.Verify(); e != nil {
		bad("cache-mutated", "%v", e)
	}
	if wantErr != (err != nil) {
		bad("error", "sync error = %v, want error = %v", err, wantErr)
	}
	for _, n := range names {
		ws := childWrites(w.Sim.Log, k, n)
		if fmt.Sprint(verbsOf(ws)) != fmt.Sprint(wantVerbs) {
			bad("verbs", "child %s: mutating requests %v, want %v", n, verbsOf(ws), wantVerbs)
			continue
		}
		for _, r := range ws {
			switch r.Verb {
			case "delete":
				if kit.Str(r.Body, "propagationPolicy") != "Background" {
					bad("delete-propagation", "child %s deleted with propagation %q", n, kit.Str(r.Body, "propagationPolicy"))
				}
				if kit.Str(r.Body, "preconditions", "uid") != kit.UID(observed[n]) {
					bad("delete-precondition", "child %s deleted with uid precondition %q, observed uid %q", n, kit.Str(r.Body, "preconditions", "uid"), kit.UID(observed[n]))
				}
				if r.Code != 200 {
					bad("delete-code", "delete answered %d", r.Code)
				}
			case "update":
				if r.Code != 200 {
					bad("update-code", "update answered %d %s", r.Code, r.Reason)
				}
				if kit.Str(r.Body, "spec", "v") != "2" {
					bad("update-content", "update body spec.v=%q want 2", kit.Str(r.Body, "spec", "v"))
				}
				if c.Class == "owned+foreign" && kit.Str(r.Body, "spec", "f") != "x" {
					bad("update-foreign", "update body lost the foreign field")
				}
				if kit.Str(r.Body, "metadata", "resourceVersion") != kit.Str(observed[n], "metadata", "resourceVersion") {
					bad("update-rv", "update body carries resourceVersion %q, observed %q", kit.Str(r.Body, "metadata", "resourceVersion"), kit.Str(observed[n], "metadata", "resourceVersion"))
				}
			}
		}
	}
	twinWrites := func(phase string) {
		if twin == nil {
			return
		}
		for _, r := range w.Sim.Log {
			if r.Kind == twin && r.Mutating() {
				bad("twin-written", "%s: %s - a child of the same Kind and name in another API group, which never differed from its desired state", phase, r)
			}
		}
	}
	twinWrites("sync")
	// follow-up sync after the caches caught up
	w.DeliverAll()
	w.Sim.ResetLog()
	if err, p, _ := w.syncKey("n1/p"); p != nil || (err != nil) != wantErr {
		bad("followup-error", "follow-up sync: err=%v panic=%v", err, p)
	}
	for _, n := range names {
		ws := childWrites(w.Sim.Log, k, n)
		if fmt.Sprint(verbsOf(ws)) != fmt.Sprint(wantFollow) {
			bad("followup-verbs", "child %s: follow-up mutating requests %v, want %v", n, verbsOf(ws), wantFollow)
			continue
		}
		for _, r := range ws {
			if r.Verb == "create" && (r.Code != 201 || kit.Str(r.Body, "spec", "v") != "2") {
				bad("recreate-content", "recreate answered %d with spec.v=%q", r.Code, kit.Str(r.Body, "spec", "v"))
			}
		}
	}
	twinWrites("follow-up")
	return f
}

func TestVerifC06(t *testing.T) {
	r := mc.NewReport("C06", "composite")
	defer r.Write()
	dims := []int{len(c06Methods), 2, len(c06Classes), 2, 2, 2, 2}
	mc.Product(r, dims, func(idx int, d []int) {
		c := c06Case{Method: c06Methods[d[0]], Kind: []string{"Leaf", "Widget"}[d[1]], Class: c06Classes[d[2]], Deleting: d[3] == 1, Desired: d[4] == 0, N: d[5] + 1, Doomed: d[6] == 1}
		verbs, wantErr, _ := c06Expected(c)
		nt := ""
		if len(verbs) > 0 || wantErr {
			nt = fmt.Sprintf("%+v", c)
		}
		r.Outcome(fmt.Sprintf("want=%v err=%v", verbs, wantErr))
		r.Case(c, nt, func() []mc.Finding { return c06Run(c) })
		if idx%97 == 0 {
			r.Sample(c)
		}
	})
}
