//go:build verif

package composite

import (
	"fmt"
	"sort"
	"strings"
	"testing"

	k8sjson3 "k8s.io/apimachinery/pkg/util/json"

	"metacontroller/pkg/internal/verif/kit"
	"metacontroller/pkg/internal/verif/mc"
	"metacontroller/pkg/internal/verif/sim"
	"metacontroller/pkg/internal/verif/world"
)

// C09: rollout intent is persisted before acting; any crash resumes consistently (DESIGN §4 C09).
// For every sync of every fair rollout scenario: every crash cut (prefix of the ordered non-child requests,
// then every subset of the child requests) and every fault kind on every request, singly; then the fair
// continuation. Oracles: order clause, cut invariants, differential final state.

type c09Scenario struct {
	N      int
	Method string
	GenSel bool
	Second int // sync index at which a second template change arrives (-1 none)
	Paths  bool // revisionHistory.fieldPaths = [spec.optional, spec.template], spec.optional never set (default: all of spec)
	// Twin: two rolling child kinds with the same Kind and plural ("Widget"/"widgets"), one in apps.ex and one in the
	// core group, with the same child names: records are per (group, kind, name)
	Twin bool
	// TwinCoreFirst: which of the two same-Kind entries comes first in the children list of the revision the
	// rollout starts from (the controller builds that list in map order; the harness pins it, both ways)
	TwinCoreFirst bool
}

type c09Dev struct {
	Sync     int
	Kind     string // "crash" or a fault kind
	Ident    string // fault: identity of the faulted request
	NonChild int    // crash: number of non-child requests let through
	Children string // crash: comma-separated child identities let through ("" none)
}

func (x *rollWorld) essence() string {
	var parts []string
	for _, o := range x.Sim.All(nil) {
		e := kit.M{"kind": o["kind"], "name": kit.Name(o), "ns": kit.NS(o), "labels": kit.Get(o, "metadata", "labels"), "spec": o["spec"]}
		if o["kind"] == "ControllerRevision" {
			// the names of a claim are a set (only membership and count are ever read): canonical order
			var claims []string
			for _, g := range kit.List(o, "children") {
				var ns []string
				for _, nm := range kit.List(g, "names") {
					ns = append(ns, fmt.Sprint(nm))
				}
				sort.Strings(ns)
				claims = append(claims, fmt.Sprintf("%v/%v:%s", kit.Get(g, "apiGroup"), kit.Get(g, "kind"), strings.Join(ns, ",")))
			}
			sort.Strings(claims)
			e["children"] = claims
			e["patch"] = o["parentPatch"]
		}
		if o["kind"] == x.pk.Kind {
			e["status"] = o["status"]
			e["finalizers"] = kit.Get(o, "metadata", "finalizers")
		}
		var owners []string
		for _, r := range kit.List(o, "metadata", "ownerReferences") {
			owners = append(owners, fmt.Sprintf("%v/%v/%v", kit.Get(r, "kind"), kit.Get(r, "name"), kit.Get(r, "controller")))
		}
		e["owners"] = owners
		if la := kit.Str(o, "metadata", "annotations", kit.LastApplied); la != "" {
			e["lastApplied"] = la
		}
		parts = append(parts, kit.JSON(e))
	}
	sort.Strings(parts)
	return canonUIDs(strings.Join(parts, "\n"))
}

func identN(log []*sim.Request) []string {
	seen := map[string]int{}
	var out []string
	for _, r := range log {
		id := r.Ident()
		seen[id]++
		out = append(out, fmt.Sprintf("%s#%d", id, seen[id]))
	}
	return out
}

// orderClause: every ControllerRevision write precedes every child write; after a failed revision write no child is touched.
func (x *rollWorld) orderClause(log []*sim.Request) string {
	childSeen := false
	revFailed := false
	for _, r := range log {
		if !r.Mutating() {
			continue
		}
		if r.Kind == world.RevisionKind {
			if childSeen {
				return fmt.Sprintf("ControllerRevision write %s after a child write", r)
			}
			if r.Code >= 300 || r.Code == 0 {
				revFailed = true
			}
		}
		if r.Kind == x.ck {
			childSeen = true
			if revFailed {
				return fmt.Sprintf("child write %s after a failed ControllerRevision write", r)
			}
		}
	}
	return ""
}

// cutInvariants evaluates the persisted-intent invariants on the store.
func (x *rollWorld) cutInvariants(atCut bool) string {
	p := x.Sim.Get(x.pk, x.pns, "p")
	if p == nil {
		return ""
	}
	latestVer := kit.Str(p, "spec", "template", "ver")
	replicas, _ := kit.Get(p, "spec", "replicas").(int64)
	claims := map[string][]string{}
	for _, r := range x.Sim.All(world.RevisionKind) {
		var pp kit.M
		raw, _ := k8sjson3.Marshal(r["parentPatch"])
		_ = k8sjson3.Unmarshal(raw, &pp)
		v := kit.Str(pp, "spec", "template", "ver")
		for _, g := range kit.List(r, "children") {
			for _, nm := range kit.List(g, "names") {
				key := kit.Str(g, "apiGroup") + "|" + nm.(string)
				claims[key] = append(claims[key], v)
			}
		}
	}
	for name, vs := range claims {
		nonLatest := 0
		for _, v := range vs {
			if v != latestVer {
				nonLatest++
			}
		}
		if nonLatest > 1 {
			return fmt.Sprintf("child %s is recorded in %d non-latest revisions %v", name, nonLatest, vs)
		}
		if len(vs) > 2 || (len(vs) == 2 && !atCut) {
			return fmt.Sprintf("child %s is recorded in %d revisions %v (atCut=%v)", name, len(vs), vs, atCut)
		}
	}
	var existing []kit.M
	for _, k := range []*sim.Kind{x.ck, x.ck2} {
		if k != nil {
			existing = append(existing, x.Sim.All(k)...)
		}
	}
	for _, c := range existing {
		name := kit.Name(c)
		var idx int
		fmt.Sscanf(name, "w%d", &idx)
		if int64(idx) >= replicas {
			continue
		}
		grp := ""
		if av := kit.Str(c, "apiVersion"); strings.Contains(av, "/") {
			grp = av[:strings.Index(av, "/")]
		}
		name = grp + "|" + name
		vs := claims[name]
		// an existing, still desired child stays on record while the revision it was assigned to lives on: a child
		// that changes hands is first added to the latest record, then dropped from the old one (in both for a
		// moment, never in none). Only when an old revision gives up its last child - its record is deleted, and
		// deletions come first - is the child unrecorded for a moment. An unrecorded child is handed to the latest
		// revision at once on the next sync, past the health gate of the rollout, so this matters.
		if len(vs) == 0 && len(claims) > 0 && kit.Get(c, "metadata", "deletionTimestamp") == nil && kit.Str(c, "spec", "tpl") != latestVer {
			v := kit.Str(c, "spec", "tpl")
			stillThere := false
			for _, cvs := range claims {
				for _, cv := range cvs {
					if cv == v {
						stillThere = true
					}
				}
			}
			if stillThere {
				return fmt.Sprintf("child %s exists with the content of %s and is desired; the revision for %s still has a record, but the child is in no record any more (records: %v)", name, v, v, claims)
			}
		}
		// never ahead: content of the latest revision while the (resolved) record says an older one
		if kit.Str(c, "spec", "tpl") == latestVer && len(vs) > 0 {
			resolvedLatest := false
			for _, v := range vs {
				if v == latestVer {
					resolvedLatest = true
				}
			}
			if !resolvedLatest {
				return fmt.Sprintf("child %s already has the content of %s but is recorded only in %v", name, latestVer, vs)
			}
		}
	}
	return ""
}

// crash: the process dies; a new controller starts with caches rebuilt from the store.
func (x *rollWorld) crash(o ccOpt) {
	w, err := attachComposite(x.Base, o, false)
	if err != nil {
		panic(err)
	}
	x.cworld = w
	x.DeliverAll()
}

var c09Outcome string

func TestVerifC09(t *testing.T) {
	r := mc.NewReport("C09", "crash-fault")
	defer r.Write()
	r.DeclareClauses("order", "cut-invariants", "post-recovery-invariants", "differential")
	maxN := 2
	if mc.Thorough() {
		maxN = 3
	}
	scIdx := 0
	for n := 1; n <= maxN; n++ {
		for _, method := range []string{"RollingInPlace", "RollingRecreate"} {
			for _, gs := range []bool{false, true} {
				seconds := []int{-1, 1}
				if mc.Thorough() {
					seconds = []int{-1, 0, 1, 2, 3}
				}
				for _, second := range seconds {
					for _, paths := range []bool{false, true} {
						if paths && (second != -1 || n != maxN) {
							continue
						}
						scIdx++
						if !mc.Mine(scIdx) {
							continue
						}
						c09Scenario1(r, c09Scenario{N: n, Method: method, GenSel: gs, Second: second, Paths: paths})
						if !paths && second == -1 && n <= 2 {
							c09Scenario1(r, c09Scenario{N: n, Method: method, GenSel: gs, Second: second, Twin: true})
							c09Scenario1(r, c09Scenario{N: n, Method: method, GenSel: gs, Second: second, Twin: true, TwinCoreFirst: true})
						}
					}
				}
			}
		}
	}
}

func c09Scenario1(r *mc.Report, sc c09Scenario) {
	if sc.Paths {
		rollFieldPaths = []string{"spec.optional", "spec.template"}
	}
	defer func() { rollFieldPaths = nil }()
	x := newRollWorld(sc.N, false, "widgets", sc.Method, true, sc.GenSel)
	if sc.Twin {
		x = newRollWorld2(sc.N, sc.Method, sc.GenSel)
	}
	opt := ccOptOf(x)
	viol := func(dev interface{}, key, format string, a ...interface{}) {
		r.Violate("C09:"+key, fmt.Sprintf("%+v %+v: ", sc, dev)+fmt.Sprintf(format, a...), kit.M{"scenario": fmt.Sprintf("%+v", sc), "deviation": fmt.Sprintf("%+v", dev)})
	}
	for i := 0; i < sc.N+3; i++ {
		if err, p, _ := x.round(); err != nil || p != nil {
			viol(nil, "setup", "initial sync failed: %v %v", err, p)
			return
		}
	}
	if sc.Twin {
		for _, rev := range x.Sim.All(world.RevisionKind) {
			x.Sim.Edit(world.RevisionKind, kit.NS(rev), kit.Name(rev), func(o map[string]interface{}) {
				ch, _ := o["children"].([]interface{})
				sort.SliceStable(ch, func(i, j int) bool {
					gi, gj := kit.Str(ch[i], "apiGroup"), kit.Str(ch[j], "apiGroup")
					if sc.TwinCoreFirst {
						return gi < gj // "" (core) sorts first
					}
					return gi > gj
				})
				o["children"] = ch
			})
		}
		x.DeliverAll()
	}
	x.edit("tpl", "v2")
	bound := 3*sc.N + 8
	// baseline: fault-free, snapshots before every sync
	type step struct {
		snap *world.Snap
		cw   *cworld
	}
	var steps []step
	target := "v2"
	baseDone := false
	for i := 0; i < 2*bound; i++ {
		if i == sc.Second {
			x.edit("tpl", "v3")
			target = "v3"
		}
		steps = append(steps, step{x.Base.Snapshot(), x.cworld})
		x.Sim.ResetLog()
		err, p, _ := x.round()
		if err != nil || p != nil {
			viol(nil, "baseline", "fault-free sync %d failed: %v %v", i, err, p)
			return
		}
		st, _, _ := x.updatedCondition()
		if x.allAt(target, sc.N) && (!sc.Twin || x.allAt2(target, sc.N)) && st == "True" && len(x.revisions()) == 1 && i >= sc.Second {
			baseDone = true
			// two more quiet rounds so that the baseline essence is a fixpoint
			x.round()
			break
		}
	}
	if !baseDone {
		viol(nil, "baseline", "fault-free rollout did not complete")
		return
	}
	baseEssence := x.essence()
	// deviations
	finish := func(dev c09Dev, from int, tgt string) {
		// fair continuation from sync index `from` (the second change still arrives at its index)
		for i := from; i < from+2*bound+4; i++ {
			if i == sc.Second {
				x.edit("tpl", "v3")
			}
			x.Sim.ResetLog()
			err, p, stack := x.round()
			if p != nil {
				viol(dev, "panic", "panic during recovery: %v\n%s", p, stack)
				return
			}
			_ = err // an error right after a fault is fine as long as the rollout recovers
			if why := x.orderClause(x.Sim.Log); why != "" {
				viol(dev, "order", "%s", why)
			}
			r.Clause("order")
			if why := x.cutInvariants(true); why != "" {
				viol(dev, "post-recovery-invariant", "after recovery sync %d: %s", i, why)
				return
			}
			r.Clause("post-recovery-invariants")
		}
		r.Clause("differential")
		if e := x.essence(); e != baseEssence {
			viol(dev, "differential", "final state differs from the uninterrupted run:\n--- got\n%s\n--- want\n%s", e, baseEssence)
			c09Outcome = "diverged"
		}
	}
	for s, stp := range steps {
		tgt := "v2"
		if sc.Second >= 0 && s >= sc.Second {
			tgt = "v3"
		}
		// the fault-free request list of this sync
		x.cworld = stp.cw
		x.Base.Restore(stp.snap)
		x.Sim.ResetLog()
		x.syncKey(x.key)
		ids := identN(x.Sim.Log)
		var nonChild, child []string
		for i, rq := range x.Sim.Log {
			if rq.Kind == x.ck {
				if rq.Mutating() {
					child = append(child, ids[i])
				}
			} else {
				nonChild = append(nonChild, ids[i])
			}
		}
		// (b) faults on every request
		for i, rq := range x.Sim.Log {
			for _, kind := range []string{"409", "500", "timeout", "lost-response"} {
				if (kind == "lost-response" || kind == "409") && !rq.Mutating() {
					continue
				}
				dev := c09Dev{Sync: s, Kind: kind, Ident: ids[i]}
				r.EvalDistinct(true)
				r.Outcome("fault:" + kind)
				x.cworld = stp.cw
				x.Base.Restore(stp.snap)
				seen := map[string]int{}
				x.Sim.Plan = func(q *sim.Request) *sim.Fault {
					id := q.Ident()
					seen[id]++
					if fmt.Sprintf("%s#%d", id, seen[id]) != dev.Ident {
						return nil
					}
					switch kind {
					case "409":
						if q.Verb == "create" {
							return &sim.Fault{Code: 409, Reason: "AlreadyExists"} // what a 409 on a POST is
						}
						return &sim.Fault{Code: 409, Reason: "Conflict"}
					case "500":
						return &sim.Fault{Code: 500, Reason: "InternalError"}
					case "timeout":
						return &sim.Fault{Transport: true}
					}
					return &sim.Fault{Transport: true, Apply: true}
				}
				x.Sim.ResetLog()
				_, p, stack := x.syncKey(x.key)
				x.Sim.Plan = nil
				if p != nil {
					viol(dev, "panic", "panic: %v\n%s", p, stack)
					continue
				}
				if why := x.orderClause(x.Sim.Log); why != "" {
					viol(dev, "order", "%s", why)
				}
				r.Clause("order")
				if why := x.cutInvariants(true); why != "" {
					viol(dev, "cut-invariant", "after the faulted sync: %s", why)
				}
				r.Clause("cut-invariants")
				x.DeliverAll()
				x.Sim.GC()
				x.fair()
				x.DeliverAll()
				finish(dev, s+1, tgt)
			}
		}
		// (a) crash cuts: prefix of the non-child requests; once they are all through, every subset of the child writes
		type cut struct {
			nonChild int
			subset   []string
		}
		var cuts []cut
		firstChildPos := len(nonChild)
		// non-child requests issued before the first child write (status update comes after the children)
		pre := 0
		for i, rq := range x.Sim.Log {
			if rq.Kind == x.ck && rq.Mutating() {
				break
			}
			if rq.Kind != x.ck {
				pre = i + 1
			}
			_ = i
		}
		preCount := 0
		for _, rq := range x.Sim.Log[:pre] {
			if rq.Kind != x.ck {
				preCount++
			}
		}
		for j := 0; j < preCount; j++ {
			cuts = append(cuts, cut{j, nil})
		}
		for m := 0; m < 1<<len(child); m++ {
			var sub []string
			for b := range child {
				if m&(1<<b) != 0 {
					sub = append(sub, child[b])
				}
			}
			cuts = append(cuts, cut{preCount, sub})
		}
		_ = firstChildPos
		for _, ct := range cuts {
			dev := c09Dev{Sync: s, Kind: "crash", NonChild: ct.nonChild, Children: strings.Join(ct.subset, ",")}
			r.EvalDistinct(true)
			r.Outcome("crash")
			x.cworld = stp.cw
			x.Base.Restore(stp.snap)
			allowed := map[string]bool{}
			for _, id := range ct.subset {
				allowed[id] = true
			}
			seen := map[string]int{}
			passed := 0
			x.Sim.Plan = func(q *sim.Request) *sim.Fault {
				id := q.Ident()
				seen[id]++
				if q.Kind == x.ck {
					if !q.Mutating() || allowed[fmt.Sprintf("%s#%d", id, seen[id])] {
						return nil
					}
					return &sim.Fault{Transport: true}
				}
				if passed < ct.nonChild {
					passed++
					return nil
				}
				return &sim.Fault{Transport: true}
			}
			x.Sim.ResetLog()
			_, p, stack := x.syncKey(x.key)
			x.Sim.Plan = nil
			if p != nil {
				viol(dev, "panic", "panic: %v\n%s", p, stack)
				continue
			}
			if why := x.orderClause(x.Sim.Log); why != "" {
				viol(dev, "order", "%s", why)
			}
			r.Clause("order")
			if why := x.cutInvariants(true); why != "" {
				viol(dev, "cut-invariant", "at the cut: %s", why)
			}
			r.Clause("cut-invariants")
			x.crash(opt)
			x.Sim.GC()
			x.fair()
			x.DeliverAll()
			finish(dev, s+1, tgt)
		}
	}
	r.Sample(kit.M{"scenario": fmt.Sprintf("%+v", sc), "syncs": len(steps)})
}

func ccOptOf(x *rollWorld) ccOpt {
	return x.opt
}
