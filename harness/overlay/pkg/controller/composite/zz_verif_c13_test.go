//go:build verif

package composite

import (
	"fmt"
	"net/http"
	"strings"
	"testing"

	"k8s.io/apimachinery/pkg/util/json"

	"metacontroller/pkg/apis/metacontroller/v1alpha1"
	"metacontroller/pkg/internal/verif/kit"
	"metacontroller/pkg/internal/verif/mc"
	"metacontroller/pkg/internal/verif/sim"
	"metacontroller/pkg/internal/verif/vcache"
	"metacontroller/pkg/internal/verif/world"
)

// C13: no hook response, however malformed, can crash metacontroller or cause writes (DESIGN §4 C13).
// Grammar: a valid response with every node replaced in turn by every JSON type (singles exhaustively,
// pairs in the thorough tier), raw non-JSON bodies, HTTP statuses; composite sync / finalize / customize.

type c13Cfg struct {
	Mode   int // 0 non-rolling; 1 rolling, one revision; 2 rolling, parent spec edited (two revisions, parallel hook calls); 3 finalizing; 4 rolling, two revisions, the rollout is waiting for a child of the latest revision; 5 the same with that child present (rollout under way)
	GenSel bool
	Strict bool
	Target string // which hook is mutated: "sync" (or finalize in mode 3), "customize"
}

type c13Case struct {
	Cfg    c13Cfg
	What   string // description of the mutation
	Status int
	Body   string
}

func c13Valid(genSel bool) kit.M {
	child := kit.Obj(kit.Leaf, "n1", "a")
	kit.Field(child, "1", "spec", "v")
	kit.Labels(child, "app", "x")
	kit.Ann(child, "p", "q")
	md := child["metadata"].(kit.M)
	md["ownerReferences"] = kit.L{kit.M{"apiVersion": "v1", "kind": "Other", "name": "boss", "uid": "uid-boss"}}
	md["finalizers"] = kit.L{"ex.io/f"}
	return kit.M{
		"status":             kit.M{"a": int64(1), "conditions": kit.L{kit.M{"type": "Ready", "status": "True"}}},
		"children":           kit.L{child},
		"resyncAfterSeconds": int64(0),
		"finalized":          false,
	}
}

func c13ValidCustomize() kit.M {
	return kit.M{"relatedResources": kit.L{kit.M{
		"apiVersion": "v1", "resource": "others",
		"labelSelector": kit.M{"matchLabels": kit.M{"rel": "1"}, "matchExpressions": kit.L{kit.M{"key": "rel", "operator": "Exists"}}},
	}, kit.M{
		"apiVersion": "v1", "resource": "others", "namespace": "n1", "names": kit.L{"r1"},
	}}}
}

// c13First: the extra child of the waiting-rollout mode.
func c13First(genSel bool) kit.M {
	o := kit.Obj(kit.Leaf, "", "first")
	if !genSel {
		kit.Labels(o, "app", "x")
	}
	return o
}

func c13Rejected(err error) bool {
	if err == nil {
		return false
	}
	s := err.Error()
	return strings.Contains(s, "hook failed") || strings.Contains(s, "invalid labels on desired child") || strings.Contains(s, "don't match parent selector")
}

var c13Outcome string
var c13Debug bool

func c13Run(c c13Case) []mc.Finding {
	var f []mc.Finding
	bad := func(key, format string, a ...interface{}) {
		f = append(f, mc.Finding{Key: "C13:" + key, Msg: fmt.Sprintf("%+v %s status=%d body=%s: ", c.Cfg, c.What, c.Status, c.Body) + fmt.Sprintf(format, a...)})
	}
	method := v1alpha1.ChildUpdateInPlace
	if c.Cfg.Mode == 1 || c.Cfg.Mode == 2 || c.Cfg.Mode >= 4 {
		method = v1alpha1.ChildUpdateRollingInPlace
	}
	w := newCWorld(ccOpt{parent: kit.Thing, children: []*sim.Kind{kit.Leaf}, generateSel: c.Cfg.GenSel, strict: c.Cfg.Strict,
		finalize: c.Cfg.Mode == 3, customize: c.Cfg.Target == "customize", etag: strings.HasPrefix(c.Cfg.Target, "etag"),
		methods: map[string]v1alpha1.ChildUpdateMethod{"leafs": method}}, false)
	parent := kit.Obj(kit.Thing, "n1", "p")
	kit.Field(parent, "puid", "metadata", "uid")
	kit.Field(parent, kit.M{"matchLabels": kit.M{"app": "x"}}, "spec", "selector")
	kit.Field(parent, "1", "spec", "template", "v")
	kit.Field(parent, kit.M{"app": "x"}, "spec", "template", "metadata", "labels")
	if c.Cfg.Mode == 3 {
		kit.Finalizers(parent, "metacontroller.io/compositecontroller-cc")
	}
	w.Sim.Seed(parent)
	w.Sim.Seed(kit.Labels(kit.Obj(kit.Other, "n1", "r1"), "rel", "1"))
	w.DeliverAll()
	valid, _ := json.Marshal(c13Valid(c.Cfg.GenSel))
	validOld, _ := json.Marshal(func() kit.M {
		v := c13Valid(c.Cfg.GenSel)
		old := kit.Copy(v["children"].(kit.L)[0].(kit.M))
		kit.Field(old, "old", "metadata", "name")
		v["children"] = append(v["children"].(kit.L), old)
		return v
	}())
	validCust, _ := json.Marshal(c13ValidCustomize())
	phase := 0
	mainHook := func(hc *world.HookCall) (int, http.Header, []byte, error) {
		if phase == 0 {
			// children a + old: "old" is not in later answers, so accepting one deletes it. Their content follows the
			// parent's template, so that a template edit is a real change for every child.
			var v kit.M
			_ = json.Unmarshal(validOld, &v)
			if c.Cfg.Mode >= 4 {
				v["children"] = append(kit.L{c13First(c.Cfg.GenSel)}, kit.List(v, "children")...)
			}
			for _, ch := range kit.List(v, "children") {
				kit.Field(ch.(kit.M), fmt.Sprint(kit.Get(hc.Parsed, "parent", "spec", "template", "v")), "spec", "tv")
			}
			b, _ := json.Marshal(v)
			return 200, nil, b, nil
		}
		if c.Cfg.Mode >= 4 && c.Cfg.Target == "sync" {
			// the answer under test, with the waiting rollout's first child put in front of its children (when it
			// has a children list at all)
			var v map[string]interface{}
			if json.Unmarshal([]byte(c.Body), &v) == nil {
				if ch, ok := v["children"].([]interface{}); ok {
					v["children"] = append([]interface{}{map[string]interface{}(c13First(c.Cfg.GenSel))}, ch...)
					if b, err := json.Marshal(v); err == nil {
						return c.Status, nil, b, nil
					}
				}
			}
		}
		if c.Cfg.Target == "customize" {
			return 200, nil, valid, nil
		}
		if c.Cfg.Target == "etag-seq" {
			// first a rejected answer that carries an ETag, then "not modified"
			if phase == 1 {
				return c.Status, http.Header{"Etag": []string{"E1"}}, []byte(c.Body), nil
			}
			code := 304
			if c.What == "then-412" {
				code = 412
			}
			return code, nil, nil, nil
		}
		return c.Status, nil, []byte(c.Body), nil
	}
	w.Hooks.Handle("/cc/sync", mainHook)
	w.Hooks.Handle("/cc/finalize", mainHook)
	w.Hooks.Handle("/cc/customize", func(hc *world.HookCall) (int, http.Header, []byte, error) {
		if phase == 0 || c.Cfg.Target != "customize" {
			return 200, nil, validCust, nil
		}
		return c.Status, nil, []byte(c.Body), nil
	})
	// phase 0: a valid answer creates children a and old (and, when rolling, the ControllerRevision)
	if err, p, stack := w.syncKey("n1/p"); (err != nil && !c.Cfg.Strict) || p != nil {
		// (a strict-mode setup failure is C19's subject: the run continues without pre-existing children)
		bad("setup", "setup sync failed: %v %v %s", err, p, stack)
		return f
	}
	w.DeliverAll()
	switch c.Cfg.Mode {
	case 2:
		w.Sim.Edit(kit.Thing, "n1", "p", func(o map[string]interface{}) { kit.Field(o, "2", "spec", "template", "v") })
	case 4, 5:
		// a rollout that WAITS (mode 5: that is under way - the moved child exists and is looked at): the first child was moved to the latest revision by a sync with a valid answer,
		// and has gone missing since
		w.Sim.Edit(kit.Thing, "n1", "p", func(o map[string]interface{}) { kit.Field(o, "2", "spec", "template", "v") })
		w.DeliverAll()
		if err, p, stack := w.syncKey("n1/p"); (err != nil && !c.Cfg.Strict) || p != nil {
			bad("setup", "first rollout sync failed: %v %v %s", err, p, stack)
			return f
		}
		w.DeliverAll()
		// (the hook lists "first" first, so that is the child that was moved)
		if c.Cfg.Mode == 4 {
			w.Sim.Remove(kit.Leaf, "n1", "first")
		}
	case 3:
		w.Sim.Edit(kit.Thing, "n1", "p", func(o map[string]interface{}) { kit.Deleting(o) })
	}
	if c.Cfg.Target == "customize" {
		// a new generation makes the manager ask the customize hook again
		w.Sim.Edit(kit.Thing, "n1", "p", func(o map[string]interface{}) { kit.Field(o, "x", "spec", "bump") })
	}
	w.DeliverAll()
	w.Sim.ResetLog()
	w.Hooks.Reset()
	phase = 1
	if c13Debug {
		for _, o := range w.Sim.All(nil) {
			fmt.Println("STORE", kit.JSON(o))
		}
	}
	fp := vcache.TakeFingerprint()
	err, p, stack := w.syncKey("n1/p")
	if c13Debug {
		fmt.Println("ERR", err, p)
		for _, r := range w.Sim.Log {
			fmt.Println("  ", r)
		}
		fmt.Println("PARENT", kit.JSON(w.Sim.Get(kit.Thing, "n1", "p")))
	}
	if p != nil {
		c13Outcome = "panic"
		site := "?"
		for _, l := range strings.Split(stack, "\n") {
			if strings.Contains(l, "metacontroller/pkg/") && !strings.Contains(l, "verif") && !strings.Contains(l, "zz_") && strings.Contains(l, "(") {
				site = strings.TrimSpace(l)
				if i := strings.Index(site, "("); i > 0 {
					site = site[:i]
				}
				site = strings.TrimPrefix(site, "metacontroller/pkg/")
				break
			}
		}
		f = append(f, mc.Finding{Key: "C13:panic:" + site, Msg: fmt.Sprintf("%+v %s status=%d body=%s: PANIC %v\n%s", c.Cfg, c.What, c.Status, c.Body, p, stack)})
		return f
	}
	if e := fp.Verify(); e != nil {
		bad("cache-mutated", "%v", e)
	}
	writes := 0
	for _, r := range w.Sim.Log {
		if r.Kind == kit.Leaf && r.Mutating() {
			writes++
		}
	}
	switch {
	case err == nil:
		c13Outcome = "accepted"
	case c13Rejected(err):
		c13Outcome = "rejected"
		if writes > 0 {
			bad("writes-after-rejection", "response rejected (%v) but %d child writes were sent", err, writes)
		}
	default:
		c13Outcome = "error-later"
	}
	if c.Cfg.Target != "etag-seq" && err != nil {
		// the work queue retries: the same parent (same UID, same generation) is looked at again and the hook
		// gives the same answer. A rejected answer must be rejected again (nothing of it may have been kept),
		// without a panic and without child writes.
		w.DeliverAll()
		w.Sim.ResetLog()
		err2, p2, stack2 := w.syncKey("n1/p")
		if p2 != nil {
			bad("panic-on-retry", "the retry of a sync whose answer was rejected (%v) panicked: %v\n%s", err, p2, stack2)
			return f
		}
		if c13Rejected(err) {
			if !c13Rejected(err2) {
				bad("rejection-not-repeated", "first sync rejected the answer (%v), the retry with the same answer did not (%v)", err, err2)
			}
			for _, r := range w.Sim.Log {
				if r.Kind == kit.Leaf && r.Mutating() {
					bad("writes-after-rejection", "retry after a rejected answer led to child write %s", r)
				}
			}
		}
		if c.Cfg.Target == "customize" {
			// a related object changes: the event handler consults the customize answers it remembers
			w.Sim.Edit(kit.Other, "n1", "r1", func(o map[string]interface{}) { kit.Labels(o, "rel", "1", "touched", "yes") })
			if p3, stack3 := mc.Recover(func() { w.DeliverAll() }); p3 != nil {
				bad("panic-on-related-event", "related-object event after a rejected customize answer panicked: %v\n%s", p3, stack3)
				return f
			}
		}
	}
	if c.Cfg.Target == "etag-seq" {
		// second call: the hook says "not modified"; nothing acceptable was ever cached, so this must be
		// rejected too and no child may be written on the strength of the rejected first answer
		w.DeliverAll()
		w.Sim.ResetLog()
		phase = 2
		err2, p2, stack2 := w.syncKey("n1/p")
		if p2 != nil {
			bad("panic", "panic in second sync: %v %s", p2, stack2)
			return f
		}
		for _, r := range w.Sim.Log {
			if r.Kind == kit.Leaf && r.Mutating() {
				bad("writes-after-rejection", "304 after a rejected answer led to child write %s (err=%v)", r, err2)
			}
		}
		if err2 == nil {
			bad("non-200-accepted", "304/412 accepted although no accepted answer was ever cached")
		}
		c13Outcome = "etag-sequence"
	}
	if c.Status != 200 && c.Cfg.Target != "customize" {
		if writes > 0 {
			bad("writes-on-non-200", "HTTP %d but %d child writes", c.Status, writes)
		}
		if err == nil && c.Status != 429 {
			bad("non-200-accepted", "HTTP %d treated as success", c.Status)
		}
	}
	return f
}

func c13Bodies(valid kit.M, pairs bool) (what []string, bodies []string) {
	paths := kit.Paths(valid)
	for _, p := range paths {
		for _, r := range kit.Replacements {
			m, ok := kit.Mutate(valid, p, r)
			if !ok {
				continue
			}
			b, err := json.Marshal(m)
			if err != nil {
				panic(err)
			}
			what = append(what, fmt.Sprintf("%s:=%s", p, strings.TrimPrefix(string(r), "\x00")))
			bodies = append(bodies, string(b))
		}
	}
	if pairs {
		for i, p1 := range paths {
			for _, p2 := range paths[i+1:] {
				for _, r1 := range kit.Replacements {
					m1, ok := kit.Mutate(valid, p1, r1)
					if !ok {
						continue
					}
					for _, r2 := range kit.Replacements {
						m2, ok := kit.Mutate(m1, p2, r2)
						if !ok {
							continue
						}
						b, _ := json.Marshal(m2)
						what = append(what, fmt.Sprintf("%s:=%s,%s:=%s", p1, strings.TrimPrefix(string(r1), "\x00"), p2, strings.TrimPrefix(string(r2), "\x00")))
						bodies = append(bodies, string(b))
					}
				}
			}
		}
	}
	return
}

var c13RawBodies = []string{"", " ", "not json", `{"children": [`, `{"status": {}, "status": {"a": 1}, "children": []}`, `[]`, `[{"children":[]}]`, `3`, `"x"`, `null`, `true`,
	`{"children": null}`, `{"children": {}}`, `{"unknownField": 1, "children": []}`, "\xff\xfe", `{"children":[]}trailing`, `{"Children":[{"apiVersion":"v1","kind":"Leaf","metadata":{"name":"z"}}]}`}

func TestVerifC13(t *testing.T) {
	r := mc.NewReport("C13", "composite")
	defer r.Write()
	idx := 0
	run := func(c c13Case) {
		idx++
		if !mc.Mine(idx) {
			return
		}
		r.Case(kit.M{"cfg": fmt.Sprintf("%+v", c.Cfg), "what": c.What, "status": c.Status, "body": c.Body}, fmt.Sprint(idx), func() []mc.Finding { return c13Run(c) })
		r.Outcome(c13Outcome)
		if idx%1009 == 0 {
			r.Sample(kit.M{"cfg": fmt.Sprintf("%+v", c.Cfg), "what": c.What, "status": c.Status, "body": c.Body})
		}
	}
	for mode := 0; mode < 6; mode++ {
		for gs := 0; gs < 2; gs++ {
			for st := 0; st < 2; st++ {
				cfg := c13Cfg{Mode: mode, GenSel: gs == 1, Strict: st == 1, Target: "sync"}
				valid := c13Valid(cfg.GenSel)
				what, bodies := c13Bodies(valid, mc.Thorough() && mode <= 1 && gs == 0 && st == 0)
				for i := range bodies {
					run(c13Case{cfg, what[i], 200, bodies[i]})
				}
				vb, _ := json.Marshal(valid)
				for _, code := range []int{204, 301, 400, 404, 429, 500} {
					run(c13Case{cfg, "valid-body", code, string(vb)})
				}
				for i, raw := range c13RawBodies {
					run(c13Case{cfg, fmt.Sprintf("raw#%d", i), 200, raw})
				}
				if (mode == 2 || mode >= 4) && st == 0 {
					// a well-formed answer that lists children of ONE kind under TWO versions of its API group (the
					// second version is not declared: whatever comes of it, it is not a panic). Lookups by group and
					// kind then meet two version buckets in map order: repeated, so that both orders occur.
					two := c13Valid(cfg.GenSel)
					other := kit.Copy(two["children"].(kit.L)[0].(kit.M))
					kit.Field(other, "v1beta1", "apiVersion")
					kit.Field(other, "a-in-the-other-version", "metadata", "name")
					two["children"] = append(two["children"].(kit.L), other)
					tb, _ := json.Marshal(two)
					for rep := 0; rep < 12; rep++ {
						run(c13Case{cfg, fmt.Sprintf("children-in-two-versions#%d", rep), 200, string(tb)})
					}
				}
			}
		}
	}
	// ETag sequences: a rejected answer with an ETag header followed by 304/412
	for _, code := range []int{301, 400, 404, 500, 503} {
		for _, then := range []string{"then-304", "then-412"} {
			vb, _ := json.Marshal(c13Valid(false))
			run(c13Case{c13Cfg{Mode: 0, Target: "etag-seq"}, then, code, string(vb)})
		}
	}
	// customize responses
	for st := 0; st < 2; st++ {
		cfg := c13Cfg{Mode: 0, GenSel: false, Strict: st == 1, Target: "customize"}
		what, bodies := c13Bodies(c13ValidCustomize(), mc.Thorough() && st == 0)
		for i := range bodies {
			run(c13Case{cfg, what[i], 200, bodies[i]})
		}
		for i, raw := range c13RawBodies {
			run(c13Case{cfg, fmt.Sprintf("raw#%d", i), 200, raw})
		}
	}
}
