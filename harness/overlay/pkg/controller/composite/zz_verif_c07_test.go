//go:build verif

package composite

import (
	"fmt"
	"strings"
	"testing"

	"k8s.io/apimachinery/pkg/apis/meta/v1/unstructured"
	"k8s.io/apimachinery/pkg/runtime"
	k8sjson2 "k8s.io/apimachinery/pkg/util/json"

	"metacontroller/pkg/apis/metacontroller/v1alpha1"
	dynamicapply "metacontroller/pkg/dynamic/apply"
	"metacontroller/pkg/internal/verif/kit"
	"metacontroller/pkg/internal/verif/mc"
	"metacontroller/pkg/internal/verif/sim"
	"metacontroller/pkg/internal/verif/vcache"
	"metacontroller/pkg/internal/verif/world"
)

// C07: rolling updates move one child per sync, in hook order, gated on child health (DESIGN §4 C07).
// Exhaustive over rollout *states* (revision assignment x child content x child health per child, built
// directly in the cluster - a superset of the reachable rollout states), one real sync from each, judged by
// the clauses M1-M5 written from the statement.

type c07Cfg struct {
	Method        string
	Checks        int  // 0 none, 1 type, 2 type+status, 3 type+status+reason
	CustomPaths   bool // revisionHistory.fieldPaths = [spec.template] instead of the default [spec]
	CommonChanged bool // a non-revisioned parent field (spec.common) changed since the children were written
	LatestVer     int  // 2: revisions v1 -> v2 ; 3: revisions v1, v2 -> v3
	LatestExists  bool // the ControllerRevision of the latest parent state already exists
	GenSel        bool
	OwnCondition  bool // the hook returns its own `Updated` condition
	AbsentPath    bool // (with CustomPaths) the field paths are [spec.optional, spec.template] and spec.optional was never set on the parent
	EmptyHistory  bool // a revisionHistory block with an empty fieldPaths list: the same as no block at all
	EchoMeta      bool // read-modify-return hook: every desired child carries the uid and resourceVersion of the child it observed (and always has: the last-applied records contain them too)
}

type c07Child struct {
	Assign  int // 0 unclaimed, 1..LatestVer = claimed by the revision of template version v<Assign>
	Content int // 0 missing, k = exists with template version v<k>
	Health  int // 0 healthy, 1 Ready=False, 2 no status, 3 stale observedGeneration, 4 Ready=True with the wrong reason, 5 healthy but pending deletion (held by a finalizer: deletion is not instantaneous)
}

type c07Case struct {
	Cfg      c07Cfg
	Children []c07Child
	// Ghost: an older revision (template version v<Ghost>) additionally claims a child "ghost" that only the
	// old revisions' own view of the parent desires (spec.ghost is true there and false in the latest spec -
	// e.g. the tail of a scale-down); GhostExists: the object is still there
	Ghost       int
	GhostExists bool
}

func ver(i int) string { return fmt.Sprintf("v%d", i) }

func c07StatusOK(checks, health int) bool {
	switch checks {
	case 0:
		return true
	case 1:
		return health != 2
	case 2:
		return health == 0 || health == 3 || health == 4 || health == 5
	default:
		return health == 0 || health == 3 || health == 5
	}
}

var c07Outcome string

func c07Run(c c07Case) []mc.Finding {
	var f []mc.Finding
	bad := func(key, format string, a ...interface{}) {
		f = append(f, mc.Finding{Key: "C07:" + key, Msg: fmt.Sprintf("%+v: ", c) + fmt.Sprintf(format, a...)})
	}
	cfg := c.Cfg
	n := len(c.Children)
	ck, cns := kit.Widget, "n1"
	o := ccOpt{parent: kit.Thing, children: []*sim.Kind{ck}, generateSel: cfg.GenSel,
		methods: map[string]v1alpha1.ChildUpdateMethod{ck.Resource: v1alpha1.ChildUpdateMethod(cfg.Method)}}
	o.emptyHistory = cfg.EmptyHistory
	if cfg.CustomPaths {
		o.fieldPaths = []string{"spec.template"}
		if cfg.AbsentPath {
			o.fieldPaths = []string{"spec.optional", "spec.template"}
		}
	}
	if cfg.Checks > 0 {
		chk := v1alpha1.StatusConditionCheck{Type: "Ready"}
		if cfg.Checks >= 2 {
			tr := "True"
			chk.Status = &tr
		}
		if cfg.Checks >= 3 {
			good := "Good"
			chk.Reason = &good
		}
		o.checks = map[string]v1alpha1.ChildUpdateStatusChecks{ck.Resource: {Conditions: []v1alpha1.StatusConditionCheck{chk}}}
	}
	w := newCWorld(o, false)
	common := "c1"
	if cfg.CommonChanged {
		common = "c2"
	}
	mkParent := func(v int, common string) kit.M {
		p := kit.Obj(kit.Thing, "n1", "p")
		if c.Ghost > 0 {
			kit.Field(p, v != cfg.LatestVer, "spec", "ghost")
		}
		kit.Field(p, "puid", "metadata", "uid")
		kit.Field(p, int64(n), "spec", "replicas")
		kit.Field(p, ver(v), "spec", "template", "ver")
		kit.Field(p, common, "spec", "common")
		if !cfg.GenSel {
			kit.Field(p, kit.M{"matchLabels": kit.M{"app": "x"}}, "spec", "selector")
			kit.Field(p, kit.M{"app": "x"}, "spec", "template", "metadata", "labels")
		}
		return p
	}
	parent := mkParent(cfg.LatestVer, common)
	w.Sim.Seed(parent)
	desired := func(i int, v int, common string) kit.M {
		d := kit.Obj(ck, cns, fmt.Sprintf("w%d", i))
		kit.Field(d, ver(v), "spec", "tpl")
		kit.Field(d, common, "spec", "common")
		if cfg.GenSel {
			kit.Labels(d, "controller-uid", "puid")
		} else {
			kit.Labels(d, "app", "x")
		}
		return d
	}
	// children as the controller itself would have written them (content of `Content`, common c1)
	for i, ch := range c.Children {
		if ch.Content == 0 {
			continue
		}
		d := desired(i, ch.Content, "c1")
		obj := &unstructured.Unstructured{Object: runtime.DeepCopyJSON(d)}
		if cfg.EchoMeta {
			kit.Field(d, fmt.Sprintf("uid-w%d", i), "metadata", "uid")
			kit.Field(d, fmt.Sprint(900000+i), "metadata", "resourceVersion")
			kit.Field(obj.Object, fmt.Sprintf("uid-w%d", i), "metadata", "uid")
			kit.Field(obj.Object, fmt.Sprint(900000+i), "metadata", "resourceVersion")
		}
		if err := dynamicapply.SetLastApplied(obj, d); err != nil {
			panic(err)
		}
		kit.Owners(obj.Object, kit.OwnerRef(kit.Thing, "p", "puid", true))
		kit.Field(obj.Object, int64(2), "metadata", "generation")
		switch ch.Health {
		case 5:
			obj.Object["status"] = kit.M{"observedGeneration": int64(2), "conditions": kit.L{kit.M{"type": "Initialized", "status": "True", "reason": "Good"}, kit.M{"type": "Ready", "status": "True", "reason": "Good"}}}
			kit.Deleting(kit.Finalizers(obj.Object, "ex.io/hold"))
		case 0:
			obj.Object["status"] = kit.M{"observedGeneration": int64(2), "conditions": kit.L{kit.M{"type": "Initialized", "status": "True", "reason": "Good"}, kit.M{"type": "Ready", "status": "True", "reason": "Good"}}}
		case 1:
			obj.Object["status"] = kit.M{"observedGeneration": int64(2), "conditions": kit.L{kit.M{"type": "Initialized", "status": "True", "reason": "Good"}, kit.M{"type": "Ready", "status": "False", "reason": "Good"}}}
		case 3:
			obj.Object["status"] = kit.M{"observedGeneration": int64(1), "conditions": kit.L{kit.M{"type": "Initialized", "status": "True", "reason": "Good"}, kit.M{"type": "Ready", "status": "True", "reason": "Good"}}}
		case 4:
			obj.Object["status"] = kit.M{"observedGeneration": int64(2), "conditions": kit.L{kit.M{"type": "Initialized", "status": "True", "reason": "Good"}, kit.M{"type": "Ready", "status": "True", "reason": "Bad"}}}
		}
		if cfg.EchoMeta {
			w.Sim.SeedVerbatim(obj.Object)
		} else {
			w.Sim.Seed(obj.Object)
		}
	}
	if c.Ghost > 0 && c.GhostExists {
		d := desired(0, c.Ghost, "c1")
		kit.Field(d, "ghost", "metadata", "name")
		obj := &unstructured.Unstructured{Object: runtime.DeepCopyJSON(d)}
		if err := dynamicapply.SetLastApplied(obj, d); err != nil {
			panic(err)
		}
		kit.Owners(obj.Object, kit.OwnerRef(kit.Thing, "p", "puid", true))
		obj.Object["status"] = kit.M{"observedGeneration": int64(1), "conditions": kit.L{kit.M{"type": "Initialized", "status": "True", "reason": "Good"}, kit.M{"type": "Ready", "status": "True", "reason": "Good"}}}
		w.Sim.Seed(obj.Object)
	}
	// ControllerRevisions as the controller itself would have written them
	revName := map[int]string{}
	for v := 1; v <= cfg.LatestVer; v++ {
		pv := &unstructured.Unstructured{Object: mkParent(v, map[bool]string{true: common, false: "c1"}[v == cfg.LatestVer])}
		paths := []string{"spec"}
		if cfg.CustomPaths {
			paths = []string{"spec.template"}
			if cfg.AbsentPath {
				paths = []string{"spec.optional", "spec.template"}
			}
		}
		patch, err := makePatch(pv.UnstructuredContent(), paths)
		if err != nil {
			panic(err)
		}
		rev, err := w.PC.newControllerRevision(pv, patch)
		if err != nil {
			panic(err)
		}
		revName[v] = rev.Name
		var names []string
		for i, ch := range c.Children {
			if ch.Assign == v {
				names = append(names, fmt.Sprintf("w%d", i))
			}
		}
		if v == c.Ghost {
			names = append(names, "ghost")
		}
		if v == cfg.LatestVer && !cfg.LatestExists {
			continue
		}
		if v != cfg.LatestVer && len(names) == 0 {
			continue // revisions without children are pruned by the controller
		}
		if len(names) > 0 {
			rev.Children = []v1alpha1.ControllerRevisionChildren{{APIGroup: ck.Group, Kind: ck.Kind, Names: names}}
		}
		raw, _ := k8sjson2.Marshal(rev)
		m := kit.M{}
		_ = k8sjson2.Unmarshal(raw, &m)
		w.Sim.Seed(m)
	}
	w.Hooks.Handle("/cc/sync", world.JSON(func(req map[string]interface{}) interface{} {
		v := kit.Str(req, "parent", "spec", "template", "ver")
		cm := kit.Str(req, "parent", "spec", "common")
		var ch kit.L
		for i := 0; i < n; i++ {
			d := desired(i, int(v[1]-'0'), cm)
			if cfg.GenSel {
				delete(d["metadata"].(kit.M), "labels") // the controller adds the generated label itself
			}
			if cfg.EchoMeta {
				if ob, ok := kit.Map(req, "children", hookKey(ck))[kit.Name(d)].(kit.M); ok {
					kit.Field(d, kit.Get(ob, "metadata", "uid"), "metadata", "uid")
					kit.Field(d, kit.Get(ob, "metadata", "resourceVersion"), "metadata", "resourceVersion")
				}
			}
			ch = append(ch, d)
		}
		if g, _ := kit.Get(req, "parent", "spec", "ghost").(bool); g {
			d := desired(0, int(v[1]-'0'), cm)
			kit.Field(d, "ghost", "metadata", "name")
			if cfg.GenSel {
				delete(d["metadata"].(kit.M), "labels")
			}
			ch = append(ch, d)
		}
		st := kit.M{"n": int64(n)}
		if cfg.OwnCondition {
			st["conditions"] = kit.L{kit.M{"type": "Updated", "status": "Hook"}, kit.M{"type": "Other", "status": "True"}}
		}
		return kit.M{"status": st, "children": ch}
	}))
	w.DeliverAll()
	fp := vcache.TakeFingerprint()
	err, p, stack := w.syncKey("n1/p")
	if p != nil {
		bad("panic", "panic %v\n%s", p, stack)
		return f
	}
	if e := fp.Verify(); e != nil {
		bad("cache-mutated", "%v", e)
	}
	if err != nil {
		bad("sync-error", "%v", err)
		return f
	}
	// ---- read back: assignment after the sync, child writes, condition
	after := map[string]int{}
	dup := map[string]int{}
	for _, r := range w.Sim.All(world.RevisionKind) {
		var pp kit.M
		raw, _ := k8sjson2.Marshal(r["parentPatch"])
		_ = k8sjson2.Unmarshal(raw, &pp)
		v := kit.Str(pp, "spec", "template", "ver")
		if len(v) < 2 {
			bad("revision-without-revisioned-fields", "ControllerRevision %s records the parent patch %s: the revisioned fields of the parent (here at least spec.template) are not in it", kit.Name(r), kit.JSON(r["parentPatch"]))
			return f
		}
		for _, g := range kit.List(r, "children") {
			for _, nm := range kit.List(g, "names") {
				after[nm.(string)] = int(v[1] - '0')
				dup[nm.(string)]++
			}
		}
	}
	for nm, k := range dup {
		if k > 1 {
			bad("M0:double-claim", "child %s is recorded in %d revisions after the sync", nm, k)
		}
	}
	L := cfg.LatestVer
	needs := func(i int) bool {
		ch := c.Children[i]
		return ch.Content == 0 || ch.Content != L || cfg.CommonChanged
	}
	obsGenOK := func(ch c07Child) bool { return cfg.Method != "RollingInPlace" || ch.Health != 3 }
	before := func(i int) int {
		a := c.Children[i].Assign
		if a == L && !cfg.LatestExists {
			return 0
		}
		return a
	}
	// M1: at most one child needing a real change moves from an older revision to the latest, the first in hook order
	var realMoves []int
	firstCandidate := -1
	for i := 0; i < n; i++ {
		name := fmt.Sprintf("w%d", i)
		b := before(i)
		if b != 0 && b != L && needs(i) && firstCandidate < 0 {
			firstCandidate = i
		}
		if after[name] == L && b != L && b != 0 && needs(i) {
			realMoves = append(realMoves, i)
		}
	}
	if len(realMoves) > 1 {
		bad("M1:more-than-one-move", "children %v all moved to the latest revision in one sync although each needs a real change", realMoves)
	}
	if len(realMoves) == 1 && realMoves[0] != firstCandidate {
		bad("M1:not-in-hook-order", "child w%d moved but w%d comes first in hook order", realMoves[0], firstCandidate)
	}
	// M2: it moves only if every child already on the latest revision was observed, is up to date and healthy
	gate := true
	gateWhy := ""
	for i := 0; i < n; i++ {
		b := before(i)
		onLatestAtGate := b == L || b == 0 || (!needs(i) && c.Children[i].Content != 0)
		if !onLatestAtGate {
			continue
		}
		ch := c.Children[i]
		if ch.Content == 0 || needs(i) || !c07StatusOK(cfg.Checks, ch.Health) || !obsGenOK(ch) {
			gate = false
			gateWhy = fmt.Sprintf("w%d (on latest) content=%d health=%d", i, ch.Content, ch.Health)
			break
		}
	}
	if len(realMoves) == 1 && !gate {
		bad("M2:moved-through-closed-gate", "w%d moved although %s is not observed/up to date/healthy", realMoves[0], gateWhy)
	}
	// M3: every child write carries the content of the revision the child is assigned to after this sync;
	// missing children are recreated from their (possibly old) revision
	wroteOrDeleted := map[string]string{}
	for _, r := range w.Sim.Log {
		if r.Kind != ck || !r.Mutating() {
			continue
		}
		wroteOrDeleted[r.Name] = r.Verb
		if r.Name == "ghost" {
			continue // judged by M6
		}
		if r.Verb == "create" || r.Verb == "update" {
			av, ok := after[r.Name]
			if !ok {
				bad("M3:write-for-unassigned-child", "%s written but recorded in no revision", r.Name)
				continue
			}
			if got := kit.Str(r.Body, "spec", "tpl"); got != ver(av) {
				bad("M3:wrong-revision-content", "%s %s carries template %s but the child is assigned to the revision of %s", r.Verb, r.Name, got, ver(av))
			}
			wantCommon := common
			if !cfg.CustomPaths && av != L {
				wantCommon = "c1" // with the default field paths the whole spec is revisioned
			}
			if got := kit.Str(r.Body, "spec", "common"); got != wantCommon {
				bad("M4:non-revisioned-field", "%s %s carries common=%s, want %s", r.Verb, r.Name, got, wantCommon)
			}
		}
	}
	for i, ch := range c.Children {
		name := fmt.Sprintf("w%d", i)
		if ch.Content == 0 && wroteOrDeleted[name] != "create" {
			bad("M3:missing-child-not-recreated", "%s is missing and was not recreated in this sync", name)
		}
		if ch.Content != 0 {
			av := after[name]
			differs := ch.Content != av || (cfg.CommonChanged && (cfg.CustomPaths || av == L))
			wantVerb := ""
			if differs && ch.Health != 5 { // a child pending deletion receives no write, whatever it looks like
				wantVerb = "update"
				if cfg.Method == "RollingRecreate" {
					wantVerb = "delete"
				}
			}
			if wroteOrDeleted[name] != wantVerb {
				bad("M3:child-not-reconciled-to-its-revision", "%s (content %s, assigned %s after the sync, common changed=%v): request %q, want %q", name, ver(ch.Content), ver(av), cfg.CommonChanged, wroteOrDeleted[name], wantVerb)
			}
		}
	}
	// M6: a child that the latest revision's answer does not contain is not desired any more, whatever an older
	// revision's own view says: it is claimed by no revision after the sync, never (re)created or updated, and
	// deleted if it is still there
	if c.Ghost > 0 {
		if v, ok := after["ghost"]; ok {
			bad("M6:stale-claim-kept", "the revision of %s still claims child ghost, which the latest revision does not desire", ver(v))
		}
		switch verb := wroteOrDeleted["ghost"]; {
		case verb == "create" || verb == "update":
			bad("M6:undesired-child-written", "child ghost was %sd although the latest revision does not desire it", verb)
		case c.GhostExists && verb != "delete":
			bad("M6:undesired-child-kept", "child ghost exists, is not desired by the latest revision and was not deleted (request %q)", verb)
		}
	}
	// M5: the Updated condition
	stored := w.Sim.Get(kit.Thing, "n1", "p")
	var cond kit.M
	for _, x := range kit.List(stored, "status", "conditions") {
		if xm, _ := x.(kit.M); xm["type"] == "Updated" {
			cond = xm
		}
	}
	pendingAfter := false
	for i := 0; i < n; i++ {
		if after[fmt.Sprintf("w%d", i)] != L {
			pendingAfter = true
		}
	}
	wantStatus, wantReason := "True", "OnLatestRevision"
	switch {
	case len(realMoves) == 1:
		wantStatus, wantReason = "False", "RolloutProgressing"
	case pendingAfter:
		wantStatus, wantReason = "False", "RolloutWaiting"
	}
	c07Outcome = wantReason
	if cond == nil || kit.Str(cond, "status") != wantStatus || kit.Str(cond, "reason") != wantReason {
		bad("M5:updated-condition", "Updated condition is %v, want %s/%s", cond, wantStatus, wantReason)
	} else if wantReason == "RolloutWaiting" && strings.TrimSpace(kit.Str(cond, "message")) == "" {
		bad("M5:waiting-without-reason", "RolloutWaiting without a message")
	}
	return f
}

func TestVerifC07(t *testing.T) {
	r := mc.NewReport("C07", "rollout-states")
	defer r.Write()
	idx := 0
	maxN := 2
	if mc.Thorough() {
		maxN = 3
	}
	cfgI := 0
	for _, method := range []string{"RollingInPlace", "RollingRecreate"} {
		for checks := 0; checks < 4; checks++ {
			for fp := 0; fp < 5; fp++ {
				for latest := 2; latest <= 3; latest++ {
					for _, exists := range []bool{true, false} {
						for _, own := range []bool{false, true} {
							cfgI++
							cfg := c07Cfg{Method: method, Checks: checks, CustomPaths: fp >= 1 && fp <= 3, CommonChanged: fp == 2, AbsentPath: fp == 3, EmptyHistory: fp == 4, LatestVer: latest, LatestExists: exists, GenSel: cfgI%2 == 0, OwnCondition: own}
							if fp >= 3 && checks != 0 {
								continue // the several-paths configuration is orthogonal to the status checks
							}
							if own && (checks != 2 || fp != 0) {
								continue // the hook's own condition is orthogonal: explored on one representative configuration slice
							}
							for n := 1; n <= maxN; n++ {
								per := (latest + 1) * (latest + 1) * 6
								total := 1
								for i := 0; i < n; i++ {
									total *= per
								}
								for code := 0; code < total; code++ {
									x := code
									c := c07Case{Cfg: cfg}
									skip := false
									for i := 0; i < n; i++ {
										d := x % per
										x /= per
										ch := c07Child{Assign: d % (latest + 1), Content: (d / (latest + 1)) % (latest + 1), Health: d / ((latest + 1) * (latest + 1))}
										if ch.Content == 0 && ch.Health != 0 {
											skip = true // a missing child has no health
										}
										if ch.Assign == latest && !exists {
											skip = true
										}
										if n == 3 && !mc.Thorough() {
											skip = true
										}
										if n == 3 && (ch.Health == 2 || ch.Health == 4 || ch.Health == 5) {
											skip = true // n=3: health restricted to healthy / unhealthy / stale generation
										}
										c.Children = append(c.Children, ch)
									}
									if skip {
										continue
									}
									idx++
									if !mc.Mine(idx) {
										continue
									}
									r.Case(c, fmt.Sprint(idx), func() []mc.Finding { return c07Run(c) })
									r.Outcome(c07Outcome)
									if idx%10007 == 0 {
										r.Sample(c)
									}
									if checks == 0 && fp == 0 && !own && n <= 2 {
										ce := c
										ce.Cfg.EchoMeta = true
										r.Case(ce, fmt.Sprint(idx)+"echo", func() []mc.Finding { return c07Run(ce) })
										r.Outcome("echo:" + c07Outcome)
										for g := 1; g < latest; g++ {
											for _, ge := range []bool{false, true} {
												cg := c
												cg.Ghost, cg.GhostExists = g, ge
												r.Case(cg, fmt.Sprint(idx)+fmt.Sprintf("g%d%v", g, ge), func() []mc.Finding { return c07Run(cg) })
												r.Outcome("ghost:" + c07Outcome)
											}
										}
									}
								}
							}
						}
					}
				}
			}
		}
	}
}
