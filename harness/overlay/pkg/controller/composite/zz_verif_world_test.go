//go:build verif

package composite

import (
	"time"

	"github.com/go-logr/logr"
	metav1 "k8s.io/apimachinery/pkg/apis/meta/v1"
	k8sjson "k8s.io/apimachinery/pkg/util/json"

	"metacontroller/pkg/apis/metacontroller/v1alpha1"
	"metacontroller/pkg/controller/common"
	"metacontroller/pkg/internal/verif/kit"
	"metacontroller/pkg/internal/verif/mc"
	"metacontroller/pkg/internal/verif/sim"
	"metacontroller/pkg/internal/verif/world"
)

type cworld struct {
	*world.Base
	CC *v1alpha1.CompositeController
	PC *parentController
	Q  *world.RecQueue
}

type ccOpt struct {
	name         string
	parent       *sim.Kind
	children     []*sim.Kind
	methods      map[string]v1alpha1.ChildUpdateMethod // by resource
	methodsOf    map[*sim.Kind]v1alpha1.ChildUpdateMethod // by kind (wins; for kinds that share a plural name)
	checks       map[string]v1alpha1.ChildUpdateStatusChecks
	generateSel  bool
	finalize     bool
	customize    bool
	noSync       bool
	ssa          bool
	selector     *metav1.LabelSelector
	ignoreStatus bool
	fieldPaths   []string
	emptyHistory bool // a revisionHistory block without any field path (documented to mean the default, [spec])
	etag         bool
	strict       bool
	resyncSec    *int32
}

func (o ccOpt) build() *v1alpha1.CompositeController {
	if o.name == "" {
		o.name = "cc"
	}
	hook := func(path string) *v1alpha1.Hook {
		wh := &v1alpha1.Webhook{URL: world.URL(path), Timeout: &metav1.Duration{Duration: time.Hour}}
		if o.strict {
			m := v1alpha1.ResponseUnmarshallModeStrict
			wh.ResponseUnmarshallMode = &m
		}
		if o.etag {
			t := true
			wh.Etag = &v1alpha1.WebhookEtagConfig{Enabled: &t}
		}
		return &v1alpha1.Hook{Webhook: wh}
	}
	cc := &v1alpha1.CompositeController{
		TypeMeta:   metav1.TypeMeta{APIVersion: "metacontroller.k8s.io/v1alpha1", Kind: "CompositeController"},
		ObjectMeta: metav1.ObjectMeta{Name: o.name},
		Spec: v1alpha1.CompositeControllerSpec{
			ParentResource: v1alpha1.CompositeControllerParentResourceRule{
				ResourceRule:  v1alpha1.ResourceRule{APIVersion: o.parent.APIVersion(), Resource: o.parent.Resource},
				LabelSelector: o.selector,
			},
			Hooks:               &v1alpha1.CompositeControllerHooks{},
			ResyncPeriodSeconds: o.resyncSec,
		},
	}
	if !o.noSync {
		cc.Spec.Hooks.Sync = hook("/" + o.name + "/sync")
	}
	if o.finalize {
		cc.Spec.Hooks.Finalize = hook("/" + o.name + "/finalize")
	}
	if o.customize {
		cc.Spec.Hooks.Customize = hook("/" + o.name + "/customize")
	}
	if o.generateSel {
		t := true
		cc.Spec.GenerateSelector = &t
	}
	if o.ignoreStatus {
		t := true
		cc.Spec.ParentResource.IgnoreStatusChanges = &t
	}
	if len(o.fieldPaths) > 0 {
		cc.Spec.ParentResource.RevisionHistory = &v1alpha1.CompositeControllerRevisionHistory{FieldPaths: o.fieldPaths}
	} else if o.emptyHistory {
		cc.Spec.ParentResource.RevisionHistory = &v1alpha1.CompositeControllerRevisionHistory{FieldPaths: []string{}}
	}
	for _, ck := range o.children {
		rule := v1alpha1.CompositeControllerChildResourceRule{ResourceRule: v1alpha1.ResourceRule{APIVersion: ck.APIVersion(), Resource: ck.Resource}}
		m, ok := o.methodsOf[ck]
		if !ok {
			m, ok = o.methods[ck.Resource]
		}
		if ok {
			rule.UpdateStrategy = &v1alpha1.CompositeControllerChildUpdateStrategy{Method: m}
			if c, ok := o.checks[ck.Resource]; ok {
				rule.UpdateStrategy.StatusChecks = c
			}
		}
		cc.Spec.ChildResources = append(cc.Spec.ChildResources, rule)
	}
	return cc
}

// newCWorld builds the real parentController on a fresh base; start installs the event handlers through
// the real Start() (no workers: the harness is the worker).
func newCWorld(o ccOpt, start bool) *cworld {
	b := world.NewBase(5*time.Minute, kit.Kinds...)
	w, err := attachComposite(b, o, start)
	if err != nil {
		panic(err)
	}
	return w
}

func attachComposite(b *world.Base, o ccOpt, start bool) (*cworld, error) {
	cc := o.build()
	ssa := &common.ApplyOptions{Strategy: common.ApplyStrategyDynamicApply}
	if o.ssa {
		ssa = &common.ApplyOptions{Strategy: common.ApplyStrategyServerSideApply, FieldManager: "metacontroller"}
	}
	pc, err := newParentController(b.Resources, b.DynClient, b.Factory, b.Rec, b.McClient, b.RevLister, cc, 0, ssa, logr.Discard())
	if err != nil {
		return nil, err
	}
	w := &cworld{Base: b, CC: cc, PC: pc, Q: world.NewRecQueue()}
	orig := pc.queue
	pc.queue = w.Q
	orig.ShutDown()
	if start {
		pc.Start()
		<-pc.doneCh // the start goroutine ends at once: caches report synced and there are no workers
	}
	return w, nil
}

// syncKey runs the real sync under recover.
func (w *cworld) syncKey(key string) (err error, panicked interface{}, stack string) {
	panicked, stack = mc.Recover(func() { err = w.PC.sync(key) })
	return
}

func parentKey(ns, name string) string {
	if ns == "" {
		return name
	}
	return ns + "/" + name
}

func jsonUnmarshal(b []byte, v *kit.M) error {
	m := map[string]interface{}{}
	err := k8sjson.Unmarshal(b, &m)
	*v = m
	return err
}
