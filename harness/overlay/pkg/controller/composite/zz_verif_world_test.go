//go:build verif

package composite

import (
	"fmt"
	"time"

	"github.com/go-logr/logr"
	metav1 "k8s.io/apimachinery/pkg/apis/meta/v1"

	"metacontroller/pkg/apis/metacontroller/v1alpha1"
	"metacontroller/pkg/controller/common"
	"metacontroller/pkg/internal/verif/mc"
	"metacontroller/pkg/internal/verif/sim"
	"metacontroller/pkg/internal/verif/world"
)

// Shared scenario vocabulary (DESIGN §3).
var (
	kThing   = &sim.Kind{Group: "ex.io", Version: "v1", Resource: "things", Kind: "Thing", Namespaced: true, StatusSub: true}
	kThingNS = &sim.Kind{Group: "ex.io", Version: "v1", Resource: "nothings", Kind: "NoThing", Namespaced: true, StatusSub: false}
	kCThing  = &sim.Kind{Group: "ex.io", Version: "v1", Resource: "cthings", Kind: "CThing", Namespaced: false, StatusSub: true}
	kLeaf    = &sim.Kind{Group: "", Version: "v1", Resource: "leafs", Kind: "Leaf", Namespaced: true}
	kWidget  = &sim.Kind{Group: "apps.ex", Version: "v1", Resource: "widgets", Kind: "Widget", Namespaced: true, StatusSub: true}
	kCWidget = &sim.Kind{Group: "apps.ex", Version: "v1", Resource: "cwidgets", Kind: "CWidget", Namespaced: false}
	kOther   = &sim.Kind{Group: "", Version: "v1", Resource: "others", Kind: "Other", Namespaced: true}
	allKinds = []*sim.Kind{kThing, kThingNS, kCThing, kLeaf, kWidget, kCWidget, kOther}
)

type cworld struct {
	*world.Base
	CC *v1alpha1.CompositeController
	PC *parentController
	Q  *world.RecQueue
}

type ccOpt struct {
	name         string
	parent       *sim.Kind
	children     []*sim.Kind
	methods      map[string]v1alpha1.ChildUpdateMethod // by resource
	checks       map[string]v1alpha1.ChildUpdateStatusChecks
	generateSel  bool
	finalize     bool
	customize    bool
	noSync       bool
	ssa          bool
	selector     *metav1.LabelSelector
	ignoreStatus bool
	fieldPaths   []string
	etag         bool
	strict       bool
	resyncSec    *int32
}

func (o ccOpt) build() *v1alpha1.CompositeController {
	if o.name == "" {
		o.name = "cc"
	}
	hook := func(path string) *v1alpha1.Hook {
		wh := &v1alpha1.Webhook{URL: world.URL(path), Timeout: &metav1.Duration{Duration: time.Hour}}
		if o.strict {
			m := v1alpha1.ResponseUnmarshallModeStrict
			wh.ResponseUnmarshallMode = &m
		}
		if o.etag {
			t := true
			wh.Etag = &v1alpha1.WebhookEtagConfig{Enabled: &t}
		}
		return &v1alpha1.Hook{Webhook: wh}
	}
	cc := &v1alpha1.CompositeController{
		TypeMeta:   metav1.TypeMeta{APIVersion: "metacontroller.k8s.io/v1alpha1", Kind: "CompositeController"},
		ObjectMeta: metav1.ObjectMeta{Name: o.name},
		Spec: v1alpha1.CompositeControllerSpec{
			ParentResource: v1alpha1.CompositeControllerParentResourceRule{
				ResourceRule:  v1alpha1.ResourceRule{APIVersion: o.parent.APIVersion(), Resource: o.parent.Resource},
				LabelSelector: o.selector,
			},
			Hooks:               &v1alpha1.CompositeControllerHooks{},
			ResyncPeriodSeconds: o.resyncSec,
		},
	}
	if !o.noSync {
		cc.Spec.Hooks.Sync = hook("/" + o.name + "/sync")
	}
	if o.finalize {
		cc.Spec.Hooks.Finalize = hook("/" + o.name + "/finalize")
	}
	if o.customize {
		cc.Spec.Hooks.Customize = hook("/" + o.name + "/customize")
	}
	if o.generateSel {
		t := true
		cc.Spec.GenerateSelector = &t
	}
	if o.ignoreStatus {
		t := true
		cc.Spec.ParentResource.IgnoreStatusChanges = &t
	}
	if len(o.fieldPaths) > 0 {
		cc.Spec.ParentResource.RevisionHistory = &v1alpha1.CompositeControllerRevisionHistory{FieldPaths: o.fieldPaths}
	}
	for _, ck := range o.children {
		rule := v1alpha1.CompositeControllerChildResourceRule{ResourceRule: v1alpha1.ResourceRule{APIVersion: ck.APIVersion(), Resource: ck.Resource}}
		if m, ok := o.methods[ck.Resource]; ok {
			rule.UpdateStrategy = &v1alpha1.CompositeControllerChildUpdateStrategy{Method: m}
			if c, ok := o.checks[ck.Resource]; ok {
				rule.UpdateStrategy.StatusChecks = c
			}
		}
		cc.Spec.ChildResources = append(cc.Spec.ChildResources, rule)
	}
	return cc
}

// newCWorld builds the real parentController on a fresh base; start installs the event handlers through
// the real Start() (no workers: the harness is the worker).
func newCWorld(o ccOpt, start bool) *cworld {
	b := world.NewBase(5*time.Minute, allKinds...)
	w, err := attachComposite(b, o, start)
	if err != nil {
		panic(err)
	}
	return w
}

func attachComposite(b *world.Base, o ccOpt, start bool) (*cworld, error) {
	cc := o.build()
	ssa := &common.ApplyOptions{Strategy: common.ApplyStrategyDynamicApply}
	if o.ssa {
		ssa = &common.ApplyOptions{Strategy: common.ApplyStrategyServerSideApply, FieldManager: "metacontroller"}
	}
	pc, err := newParentController(b.Resources, b.DynClient, b.Factory, b.Rec, b.McClient, b.RevLister, cc, 0, ssa, logr.Discard())
	if err != nil {
		return nil, err
	}
	w := &cworld{Base: b, CC: cc, PC: pc, Q: world.NewRecQueue()}
	orig := pc.queue
	pc.queue = w.Q
	orig.ShutDown()
	if start {
		pc.Start()
		<-pc.doneCh // the start goroutine ends at once: caches report synced and there are no workers
	}
	return w, nil
}

// rebuild models a process restart: fresh controller, caches refilled from the store, memos dropped.
func (w *cworld) syncKey(key string) (err error, panicked interface{}, stack string) {
	panicked, stack = mc.Recover(func() { err = w.PC.sync(key) })
	return
}

func parentKey(ns, name string) string {
	if ns == "" {
		return name
	}
	return ns + "/" + name
}

// Object builders.
func obj(k *sim.Kind, ns, name string) map[string]interface{} {
	md := map[string]interface{}{"name": name}
	if k.Namespaced {
		md["namespace"] = ns
	}
	return map[string]interface{}{"apiVersion": k.APIVersion(), "kind": k.Kind, "metadata": md}
}

func withLabels(o map[string]interface{}, kv ...string) map[string]interface{} {
	md := o["metadata"].(map[string]interface{})
	l, _ := md["labels"].(map[string]interface{})
	if l == nil {
		l = map[string]interface{}{}
		md["labels"] = l
	}
	for i := 0; i+1 < len(kv); i += 2 {
		l[kv[i]] = kv[i+1]
	}
	return o
}

func withAnn(o map[string]interface{}, kv ...string) map[string]interface{} {
	md := o["metadata"].(map[string]interface{})
	l, _ := md["annotations"].(map[string]interface{})
	if l == nil {
		l = map[string]interface{}{}
		md["annotations"] = l
	}
	for i := 0; i+1 < len(kv); i += 2 {
		l[kv[i]] = kv[i+1]
	}
	return o
}

func withField(o map[string]interface{}, v interface{}, path ...string) map[string]interface{} {
	m := o
	for _, p := range path[:len(path)-1] {
		n, _ := m[p].(map[string]interface{})
		if n == nil {
			n = map[string]interface{}{}
			m[p] = n
		}
		m = n
	}
	m[path[len(path)-1]] = v
	return o
}

func ownerRef(k *sim.Kind, name, uid string, controller bool) map[string]interface{} {
	r := map[string]interface{}{"apiVersion": k.APIVersion(), "kind": k.Kind, "name": name, "uid": uid}
	if controller {
		r["controller"] = true
		r["blockOwnerDeletion"] = true
	}
	return r
}

func withOwners(o map[string]interface{}, refs ...map[string]interface{}) map[string]interface{} {
	md := o["metadata"].(map[string]interface{})
	var l []interface{}
	for _, r := range refs {
		l = append(l, r)
	}
	md["ownerReferences"] = l
	return o
}

func nstr(o map[string]interface{}, path ...string) string {
	var cur interface{} = o
	for _, p := range path {
		m, ok := cur.(map[string]interface{})
		if !ok {
			return ""
		}
		cur = m[p]
	}
	s, _ := cur.(string)
	return s
}

func controllerUID(o map[string]interface{}) string {
	md, _ := o["metadata"].(map[string]interface{})
	refs, _ := md["ownerReferences"].([]interface{})
	for _, r := range refs {
		rm, _ := r.(map[string]interface{})
		if c, _ := rm["controller"].(bool); c {
			u, _ := rm["uid"].(string)
			return u
		}
	}
	return ""
}

var _ = fmt.Sprintf
