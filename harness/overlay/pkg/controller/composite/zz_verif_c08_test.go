//go:build verif

package composite

import (
	"fmt"
	"strings"
	"testing"

	"metacontroller/pkg/apis/metacontroller/v1alpha1"
	"metacontroller/pkg/internal/verif/kit"
	"metacontroller/pkg/internal/verif/mc"
	"metacontroller/pkg/internal/verif/sim"
	"metacontroller/pkg/internal/verif/vcache"
	"metacontroller/pkg/internal/verif/world"
)

// C08: a rolling update of healthy children always completes and cleans up (DESIGN §4 C08).
// Fair environment: after every sync the caches catch up, the garbage collector runs, and every child
// becomes healthy and observes its own generation. Exhaustive over n, scope, method, status checks and
// the sync index at which a second spec change arrives.

type c08Case struct {
	GenSel   bool
	N        int
	Cluster  bool
	Child    string // "widgets" (namespaced) or "cwidgets" (cluster-scoped, cluster parents only)
	Method   string
	Checks   bool
	InjectAt int    // sync index (after the first spec change) at which a second spec change arrives; -1 = none
	Change1  string // first change: "tpl" (template only) or "tpl+scaledown" (template and one replica less, in one edit)
	Change2  string // second change: "tpl", "scaledown", "scaleup"
	// ObsGen: what the children's own controller reports as status.observedGeneration: "" its generation,
	// "zero" a literal 0 (a field it serialises but does not maintain), "absent" nothing. Such a child is up to
	// date and passes its status checks all the same.
	ObsGen string
}

// rollWorld is shared by C07/C08/C09.
type rollWorld struct {
	*cworld
	pk     *sim.Kind
	pns    string
	ck     *sim.Kind
	ck2    *sim.Kind // optional second rolling child kind with the SAME names (desired while spec.template.extra is true)
	cns    string
	key    string
	puid   string
	checks bool
	opt    ccOpt
	obsGen string
}

// rollHookDesc: the hook lists its children highest ordinal first (as a StatefulSet-like hook does on updates)
var rollHookDesc bool

func rollHook(ck *sim.Kind, cns string, genSel bool) world.HookFunc {
	desc := rollHookDesc
	return world.JSON(func(req map[string]interface{}) interface{} {
		n, _ := kit.Get(req, "parent", "spec", "replicas").(int64)
		ver, _ := kit.Get(req, "parent", "spec", "template", "ver").(string)
		var ch kit.L
		for j := int64(0); j < n; j++ {
			i := j
			if desc {
				i = n - 1 - j
			}
			o := kit.Obj(ck, cns, fmt.Sprintf("w%d", i))
			kit.Field(o, ver, "spec", "tpl")
			kit.Field(o, kit.Get(req, "parent", "spec", "common"), "spec", "common")
			if !genSel {
				kit.Labels(o, "app", "x")
			}
			ch = append(ch, o)
		}
		if extra, _ := kit.Get(req, "parent", "spec", "template", "extra").(bool); extra {
			for i := int64(0); i < n; i++ {
				o := kit.Obj(kit.CoreWidget, cns, fmt.Sprintf("w%d", i))
				kit.Field(o, ver, "spec", "tpl")
				if !genSel {
					kit.Labels(o, "app", "x")
				}
				ch = append(ch, o)
			}
		}
		if ch == nil {
			ch = kit.L{}
		}
		observed := 0
		for _, g := range kit.Map(req, "children") {
			observed += len(g.(kit.M))
		}
		return kit.M{"status": kit.M{"observed": int64(observed)}, "children": ch}
	})
}

// rollFieldPaths: revisionHistory.fieldPaths of the next newRollWorld (nil = the default, all of spec)
var rollFieldPaths []string

func newRollWorld(n int, cluster bool, child, method string, checks, genSel bool) *rollWorld {
	x := &rollWorld{pk: kit.Thing, pns: "n1", ck: kit.Widget, cns: "n1", checks: checks}
	if cluster {
		x.pk, x.pns = kit.CThing, ""
	}
	if child == "cwidgets" {
		x.ck, x.cns = kit.CWidget, ""
	}
	o := ccOpt{parent: x.pk, children: []*sim.Kind{x.ck}, generateSel: genSel,
		methods: map[string]v1alpha1.ChildUpdateMethod{x.ck.Resource: v1alpha1.ChildUpdateMethod(method)}}
	if checks {
		// two checks: one by type and status, one by type, status and reason
		tr, good := "True", "Good"
		o.checks = map[string]v1alpha1.ChildUpdateStatusChecks{x.ck.Resource: {Conditions: []v1alpha1.StatusConditionCheck{{Type: "Scheduled", Status: &tr}, {Type: "Ready", Status: &tr, Reason: &good}}}}
	}
	if rollFieldPaths != nil {
		o.fieldPaths = rollFieldPaths
	}
	x.opt = o
	x.cworld = newCWorld(o, false)
	p := kit.Obj(x.pk, x.pns, "p")
	kit.Field(p, int64(n), "spec", "replicas")
	kit.Field(p, "v1", "spec", "template", "ver")
	kit.Field(p, "c1", "spec", "common")
	if !genSel {
		kit.Field(p, kit.M{"matchLabels": kit.M{"app": "x"}}, "spec", "selector")
		kit.Field(p, kit.M{"app": "x"}, "spec", "template", "metadata", "labels")
	}
	x.puid = x.Sim.Seed(p)
	x.key = parentKey(x.pns, "p")
	x.Hooks.Handle("/cc/sync", rollHook(x.ck, x.cns, genSel))
	x.DeliverAll()
	return x
}

// fair: every child becomes healthy and reports having observed its own generation.
func (x *rollWorld) fair() {
	for _, k := range []*sim.Kind{x.ck, x.ck2} {
		if k == nil {
			continue
		}
		for _, o := range x.Sim.All(k) {
			gen, _ := kit.Get(o, "metadata", "generation").(int64)
			x.Sim.Edit(k, kit.NS(o), kit.Name(o), func(c map[string]interface{}) {
				og := interface{}(gen)
				if x.obsGen == "zero" {
					og = int64(0)
				}
				defer func() {
					if x.obsGen == "absent" {
						delete(c["status"].(map[string]interface{}), "observedGeneration")
					}
				}()
				c["status"] = map[string]interface{}{
					"observedGeneration": og,
					// as on a Pod, the checked condition is not the first one in the list
					"conditions": []interface{}{map[string]interface{}{"type": "Initialized", "status": "True", "reason": "Init"}, map[string]interface{}{"type": "Ready", "status": "True", "reason": "Good"}, map[string]interface{}{"type": "Scheduled", "status": "True", "reason": "Sched"}},
				}
			})
		}
	}
}

// newRollWorld2: two rolling child kinds with the same Kind ("Widget") and plural, one in apps.ex and one in the
// core group, same method, same child names.
func newRollWorld2(n int, method string, genSel bool) *rollWorld {
	x := &rollWorld{pk: kit.Thing, pns: "n1", ck: kit.Widget, ck2: kit.CoreWidget, cns: "n1"}
	o := ccOpt{parent: x.pk, children: []*sim.Kind{x.ck, x.ck2}, generateSel: genSel,
		methods: map[string]v1alpha1.ChildUpdateMethod{x.ck.Resource: v1alpha1.ChildUpdateMethod(method), x.ck2.Resource: v1alpha1.ChildUpdateMethod(method)}}
	x.opt = o
	x.cworld = newCWorld(o, false)
	p := kit.Obj(x.pk, x.pns, "p")
	kit.Field(p, int64(n), "spec", "replicas")
	kit.Field(p, "v1", "spec", "template", "ver")
	kit.Field(p, true, "spec", "template", "extra")
	kit.Field(p, "c1", "spec", "common")
	if !genSel {
		kit.Field(p, kit.M{"matchLabels": kit.M{"app": "x"}}, "spec", "selector")
		kit.Field(p, kit.M{"app": "x"}, "spec", "template", "metadata", "labels")
	}
	x.puid = x.Sim.Seed(p)
	x.key = parentKey(x.pns, "p")
	x.Hooks.Handle("/cc/sync", rollHook(x.ck, x.cns, genSel))
	x.DeliverAll()
	return x
}

func (x *rollWorld) allAt2(ver string, n int) bool {
	ch := x.Sim.All(x.ck2)
	if len(ch) != n {
		return false
	}
	for _, c := range ch {
		if kit.Str(c, "spec", "tpl") != ver || kit.Get(c, "metadata", "deletionTimestamp") != nil {
			return false
		}
	}
	return true
}

func (x *rollWorld) round() (error, interface{}, string) {
	fp := vcache.TakeFingerprint()
	err, p, stack := x.syncKey(x.key)
	if p == nil {
		if e := fp.Verify(); e != nil {
			return fmt.Errorf("cache mutated: %v", e), nil, ""
		}
	}
	x.DeliverAll()
	x.Sim.GC()
	x.fair()
	x.DeliverAll()
	return err, p, stack
}

func (x *rollWorld) updatedCondition() (status, reason, msg string) {
	p := x.Sim.Get(x.pk, x.pns, "p")
	for _, c := range kit.List(p, "status", "conditions") {
		cm, _ := c.(kit.M)
		if cm["type"] == "Updated" {
			return kit.Str(cm, "status"), kit.Str(cm, "reason"), kit.Str(cm, "message")
		}
	}
	return "", "", ""
}

func (x *rollWorld) revisions() []kit.M {
	var out []kit.M
	for _, r := range x.Sim.All(world.RevisionKind) {
		out = append(out, r)
	}
	return out
}

func (x *rollWorld) edit(change, ver string) {
	x.Sim.Edit(x.pk, x.pns, "p", func(o map[string]interface{}) {
		n, _ := kit.Get(o, "spec", "replicas").(int64)
		switch change {
		case "tpl":
			kit.Field(o, ver, "spec", "template", "ver")
		case "tpl+scaledown":
			kit.Field(o, ver, "spec", "template", "ver")
			kit.Field(o, n-1, "spec", "replicas")
		case "scaledown":
			kit.Field(o, n-1, "spec", "replicas")
		case "scaleup":
			kit.Field(o, n+1, "spec", "replicas")
		case "dropextra":
			kit.Field(o, false, "spec", "template", "extra")
		case "tpl+dropextra":
			kit.Field(o, ver, "spec", "template", "ver")
			kit.Field(o, false, "spec", "template", "extra")
		case "addextra":
			kit.Field(o, true, "spec", "template", "extra")
		}
	})
	x.DeliverAll()
}

func (x *rollWorld) replicas() int {
	n, _ := kit.Get(x.Sim.Get(x.pk, x.pns, "p"), "spec", "replicas").(int64)
	return int(n)
}

func (x *rollWorld) allAt(ver string, n int) bool {
	ch := x.Sim.All(x.ck)
	if len(ch) != n {
		return false
	}
	for _, c := range ch {
		if kit.Str(c, "spec", "tpl") != ver || kit.Get(c, "metadata", "deletionTimestamp") != nil {
			return false
		}
	}
	return true
}

var c08Outcome string

func c08Run(c c08Case) []mc.Finding {
	var f []mc.Finding
	bad := func(key, format string, a ...interface{}) {
		f = append(f, mc.Finding{Key: "C08:" + key, Msg: fmt.Sprintf("%+v: ", c) + fmt.Sprintf(format, a...)})
	}
	x := newRollWorld(c.N, c.Cluster, c.Child, c.Method, c.Checks, c.GenSel)
	x.obsGen = c.ObsGen
	// bring the first generation up
	for i := 0; i < c.N+3; i++ {
		if err, p, stack := x.round(); err != nil || p != nil {
			if c.Cluster && err != nil && strings.Contains(err.Error(), "an empty namespace may not be set during creation") {
				bad("cluster-parent:controllerrevision-without-namespace", "a cluster-scoped parent cannot use a rolling strategy: %v", err)
				c08Outcome = "cluster-parent"
				return f
			}
			bad("setup", "initial sync %d: err=%v panic=%v %s", i, err, p, stack)
			return f
		}
	}
	if !x.allAt("v1", c.N) {
		bad("setup", "children not created at v1")
		return f
	}
	target := "v2"
	x.edit(c.Change1, "v2")
	bound := 2*c.N + 6
	if c.Method == "RollingRecreate" {
		bound = 3*c.N + 6
	}
	budget := bound
	done := -1
	for i := 0; i < 2*bound+2 && budget >= 0; i++ {
		if i == c.InjectAt {
			if c.Change2 == "tpl" {
				target = "v3"
			}
			x.edit(c.Change2, "v3")
			budget = bound
		}
		cached := map[string]bool{}
		if inf := x.Informer(x.ck); inf != nil {
			for _, k := range inf.Keys() {
				o, _, _ := inf.GetIndexer().GetByKey(k)
				cached[k[strings.LastIndex(k, "/")+1:]] = o != nil
			}
		}
		err, p, stack := x.round()
		if p != nil {
			bad("panic", "panic in rollout sync %d: %v\n%s", i, p, stack)
			return f
		}
		if err != nil {
			bad("sync-error", "rollout sync %d: %v", i, err)
			return f
		}
		st, reason, msg := x.updatedCondition()
		complete := x.allAt(target, x.replicas()) && st == "True" && len(x.revisions()) == 1
		if !complete {
			budget-- // only syncs of an unfinished rollout count against the bound
		}
		if reason == "RolloutWaiting" && strings.HasPrefix(msg, "missing child ") {
			name := msg[strings.LastIndex(msg, " ")+1:]
			if cached[name] {
				bad("waits-on-existing-child", "sync %d reports %q although %s was in the cache, up to date and healthy", i, msg, name)
				c08Outcome = "stalled"
				return f
			}
		}
		if complete && (c.InjectAt < 0 || i >= c.InjectAt) {
			done = i + 1
			break
		}
	}
	if done < 0 {
		st, reason, msg := x.updatedCondition()
		bad("not-completed", "rollout to %s not complete within the bound of %d syncs: Updated=%s/%s %q, revisions=%d, children at target=%v", target, bound, st, reason, msg, len(x.revisions()), x.allAt(target, x.replicas()))
		c08Outcome = "not-completed"
		return f
	}
	c08Outcome = fmt.Sprintf("completed")
	return f
}

// c08Run2: two rolling child kinds whose children share names; one kind is dropped (or brought back) by a
// revisioned field while a template rollout is under way.
type c08Case2 struct {
	GenSel   bool
	N        int
	Method   string
	InjectAt int
	Change1  string // "tpl", "tpl+dropextra", "dropextra"
	Change2  string // "tpl", "dropextra", "tpl+dropextra", "addextra", "scaledown"
}

func c08Run2(c c08Case2) []mc.Finding {
	var f []mc.Finding
	bad := func(key, format string, a ...interface{}) {
		f = append(f, mc.Finding{Key: "C08:two-kinds:" + key, Msg: fmt.Sprintf("%+v: ", c) + fmt.Sprintf(format, a...)})
	}
	x := newRollWorld2(c.N, c.Method, c.GenSel)
	for i := 0; i < 2*c.N+3; i++ {
		if err, p, stack := x.round(); err != nil || p != nil {
			bad("setup", "initial sync %d: err=%v panic=%v %s", i, err, p, stack)
			return f
		}
	}
	if !x.allAt("v1", c.N) || !x.allAt2("v1", c.N) {
		bad("setup", "children not created at v1")
		return f
	}
	target, extra := "v1", true
	apply := func(change, ver string) {
		if strings.Contains(change, "tpl") {
			target = ver
		}
		if strings.Contains(change, "dropextra") {
			extra = false
		}
		if change == "addextra" {
			extra = true
		}
		x.edit(change, ver)
	}
	apply(c.Change1, "v2")
	bound := 2 * (2*c.N + 6)
	if c.Method == "RollingRecreate" {
		bound = 2 * (3*c.N + 6)
	}
	budget := bound
	done := -1
	for i := 0; i < 2*bound+2 && budget >= 0; i++ {
		if i == c.InjectAt {
			apply(c.Change2, "v3")
			budget = bound
		}
		err, p, stack := x.round()
		if p != nil {
			bad("panic", "panic in rollout sync %d: %v\n%s", i, p, stack)
			return f
		}
		if err != nil {
			bad("sync-error", "rollout sync %d: %v", i, err)
			return f
		}
		st, _, _ := x.updatedCondition()
		n2 := 0
		if extra {
			n2 = x.replicas()
		}
		complete := x.allAt(target, x.replicas()) && x.allAt2(target, n2) && st == "True" && len(x.revisions()) == 1
		if !complete {
			budget--
		}
		if complete && (c.InjectAt < 0 || i >= c.InjectAt) {
			done = i + 1
			break
		}
	}
	if done < 0 {
		st, reason, msg := x.updatedCondition()
		n2 := 0
		if extra {
			n2 = x.replicas()
		}
		bad("not-completed", "rollout to %s (second kind desired: %v) not complete within the bound of %d syncs: Updated=%s/%s %q, revisions=%d, widgets at target=%v, gadgets at target=%v", target, extra, bound, st, reason, msg, len(x.revisions()), x.allAt(target, x.replicas()), x.allAt2(target, n2))
		c08Outcome = "two-kinds:not-completed"
		return f
	}
	c08Outcome = "two-kinds:completed"
	return f
}

func TestVerifC08(t *testing.T) {
	r := mc.NewReport("C08", "fair-rollouts")
	defer r.Write()
	maxN := 3
	if mc.Thorough() {
		maxN = 4
	}
	idx := 0
	for _, genSel := range []bool{false, true} {
		for n := 1; n <= maxN; n++ {
			for _, scope := range []struct {
				cluster bool
				child   string
			}{{false, "widgets"}, {true, "widgets"}, {true, "cwidgets"}} {
				for _, method := range []string{"RollingInPlace", "RollingRecreate"} {
					for _, checks := range []bool{false, true} {
						bound := 3*n + 6
						for inject := -1; inject <= bound; inject++ {
							for _, ch1 := range []string{"tpl", "tpl+scaledown"} {
								for _, ch2 := range []string{"tpl", "scaledown", "scaleup"} {
									if (ch1 == "tpl+scaledown" && n < 2) || (inject < 0 && ch2 != "tpl") || (ch2 == "scaledown" && (n < 2 || (n < 3 && ch1 == "tpl+scaledown"))) {
										continue
									}
									idx++
									if !mc.Mine(idx) {
										continue
									}
									c := c08Case{GenSel: genSel, N: n, Cluster: scope.cluster, Child: scope.child, Method: method, Checks: checks, InjectAt: inject, Change1: ch1, Change2: ch2}
									r.Case(c, fmt.Sprint(idx), func() []mc.Finding { return c08Run(c) })
									r.Outcome(c08Outcome)
									if idx%53 == 0 {
										r.Sample(c)
									}
									if inject < 0 && !scope.cluster {
										for _, og := range []string{"zero", "absent"} {
											c2 := c
											c2.ObsGen = og
											r.Case(c2, fmt.Sprint(idx)+og, func() []mc.Finding { return c08Run(c2) })
											r.Outcome(og + ":" + c08Outcome)
										}
									}
								}
							}
						}
					}
				}
			}
		}
	}
	// two rolling child kinds with shared names
	maxN2 := 2
	if mc.Thorough() {
		maxN2 = 3
	}
	for _, genSel := range []bool{false, true} {
		for n := 1; n <= maxN2; n++ {
			for _, method := range []string{"RollingInPlace", "RollingRecreate"} {
				bound := 2 * (3*n + 6)
				for inject := -1; inject <= bound/2; inject++ {
					for _, ch1 := range []string{"tpl", "tpl+dropextra", "dropextra"} {
						for _, ch2 := range []string{"tpl", "dropextra", "tpl+dropextra", "addextra", "scaledown"} {
							if (inject < 0 && ch2 != "tpl") || (ch2 == "scaledown" && n < 2) || (ch2 == "addextra" && ch1 == "tpl") || (strings.Contains(ch2, "dropextra") && ch1 != "tpl") {
								continue
							}
							idx++
							if !mc.Mine(idx) {
								continue
							}
							c := c08Case2{GenSel: genSel, N: n, Method: method, InjectAt: inject, Change1: ch1, Change2: ch2}
							r.Case(c, fmt.Sprint(idx), func() []mc.Finding { return c08Run2(c) })
							r.Outcome(c08Outcome)
							if idx%53 == 0 {
								r.Sample(c)
							}
						}
					}
				}
			}
		}
	}
}
