//go:build verif

package composite

import (
	"context"
	"fmt"
	"runtime"
	"sort"
	"strings"
	"sync/atomic"
	"testing"
	"time"

	apiextensionsv1 "k8s.io/apiextensions-apiserver/pkg/apis/apiextensions/v1"
	apiequality "k8s.io/apimachinery/pkg/api/equality"
	metav1 "k8s.io/apimachinery/pkg/apis/meta/v1"
	k8sruntime "k8s.io/apimachinery/pkg/runtime"
	"k8s.io/apimachinery/pkg/types"
	"sigs.k8s.io/controller-runtime/pkg/client"
	"sigs.k8s.io/controller-runtime/pkg/client/fake"
	"sigs.k8s.io/controller-runtime/pkg/reconcile"

	"metacontroller/pkg/apis/metacontroller/v1alpha1"
	mcinformers "metacontroller/pkg/client/generated/informer/externalversions"
	"metacontroller/pkg/controller/common"
	"metacontroller/pkg/internal/verif/kit"
	"metacontroller/pkg/internal/verif/mc"
	"metacontroller/pkg/internal/verif/vcache"
	"metacontroller/pkg/internal/verif/world"
)

// C20: hosted controllers follow their CompositeController objects (DESIGN §4 C20).
// BFS over event sequences (create / spec-changing update / no-op update / delete / invalid and optional-field
// variants) on one or two controller names, through the real Metacontroller.Reconcile; after every event the
// set of running instances, their specs, queues, handlers, factory refcounts and hook isolation are compared
// with a reference model.

var c20Specs = []string{"v1", "v2",
	// valid variants of optional webhook fields: each must start
	"etag-enabled", "etag-timeout-only", "etag-cleanup-only", "etag-full", "timeout-zero", "timeout-negative", "strict", "service-path", "resync-zero", "resync-negative", "revision-history-empty",
	// configurations that cannot start
	"INVALID-unknown-parent", "INVALID-unknown-child", "INVALID-no-hooks", "INVALID-webhook-empty", "INVALID-service-noname", "INVALID-bad-selector", "INVALID-crd-without-status", "INVALID-crd-missing"}

func c20Spec(name, id string) v1alpha1.CompositeControllerSpec {
	url := func(v string) *string { return world.URL("/" + name + "/" + v + "/sync") }
	t := true
	wh := &v1alpha1.Webhook{URL: url(id), Timeout: &metav1.Duration{Duration: time.Hour}}
	spec := v1alpha1.CompositeControllerSpec{
		ParentResource:   v1alpha1.CompositeControllerParentResourceRule{ResourceRule: v1alpha1.ResourceRule{APIVersion: "ex.io/v1", Resource: "things"}},
		ChildResources:   []v1alpha1.CompositeControllerChildResourceRule{{ResourceRule: v1alpha1.ResourceRule{APIVersion: "v1", Resource: "leafs"}}},
		GenerateSelector: &t,
		Hooks:            &v1alpha1.CompositeControllerHooks{Sync: &v1alpha1.Hook{Webhook: wh}},
	}
	i32 := func(v int32) *int32 { return &v }
	switch id {
	case "etag-enabled":
		wh.Etag = &v1alpha1.WebhookEtagConfig{Enabled: &t}
	case "etag-timeout-only":
		wh.Etag = &v1alpha1.WebhookEtagConfig{Enabled: &t, CacheTimeoutSeconds: i32(60)}
	case "etag-cleanup-only":
		wh.Etag = &v1alpha1.WebhookEtagConfig{Enabled: &t, CacheCleanupSeconds: i32(60)}
	case "etag-full":
		wh.Etag = &v1alpha1.WebhookEtagConfig{Enabled: &t, CacheTimeoutSeconds: i32(60), CacheCleanupSeconds: i32(120)}
	case "timeout-zero":
		wh.Timeout = &metav1.Duration{Duration: 0}
	case "timeout-negative":
		wh.Timeout = &metav1.Duration{Duration: -time.Second}
	case "resync-zero":
		spec.ResyncPeriodSeconds = i32(0)
	case "resync-negative":
		spec.ResyncPeriodSeconds = i32(-5)
	case "revision-history-empty":
		spec.ParentResource.RevisionHistory = &v1alpha1.CompositeControllerRevisionHistory{}
	case "strict":
		m := v1alpha1.ResponseUnmarshallModeStrict
		wh.ResponseUnmarshallMode = &m
	case "service-path":
		p := "/" + name + "/service-path/sync"
		wh.URL, wh.Path, wh.Service = nil, &p, &v1alpha1.ServiceReference{Name: "hook", Namespace: "invalid"}
	case "with-customize":
		// (not part of the BFS alphabet: used by the in-flight unit) a customize hook that selects related objects
		spec.Hooks.Customize = &v1alpha1.Hook{Webhook: &v1alpha1.Webhook{URL: world.URL("/" + name + "/with-customize/customize"), Timeout: &metav1.Duration{Duration: time.Hour}}}
	case "INVALID-unknown-parent":
		spec.ParentResource.Resource = "nopes"
	case "INVALID-unknown-child":
		spec.ChildResources[0].Resource = "nopes"
	case "INVALID-no-hooks":
		spec.Hooks = nil
	case "INVALID-webhook-empty":
		wh.URL = nil
	case "INVALID-service-noname":
		p := "/x"
		wh.URL, wh.Path, wh.Service = nil, &p, &v1alpha1.ServiceReference{Namespace: "ns"}
	case "INVALID-bad-selector":
		spec.ParentResource.LabelSelector = &metav1.LabelSelector{MatchExpressions: []metav1.LabelSelectorRequirement{{Key: "a", Operator: "Bogus"}}}
	case "INVALID-crd-without-status":
		spec.ParentResource.Resource = "nothings"
	case "INVALID-crd-missing":
		spec.ParentResource.Resource = "cthings" // its CRD object is not installed in the fake client
	}
	return spec
}

func c20Valid(id string) bool { return !strings.HasPrefix(id, "INVALID") }

// hook URL path an instance with this spec calls
func c20HookPath(name, id string) string {
	return "/" + name + "/" + id + "/sync"
}

type c20World struct {
	*world.Base
	k8s          client.Client
	mc           *Metacontroller
	object       map[string]string            // model: name -> spec id of the stored CompositeController ("" = absent)
	running      map[string]string            // model: name -> spec id of the instance that must be running
	inst         map[string]*parentController // instance seen running for name (to detect restarts / no-ops)
	queues       map[*parentController]*world.RecQueue
	stopped      []*parentController
	stoppedPaths map[string]bool
	findings     []mc.Finding
	hist         []string
	names        []string
	specs        []string
}

func newC20World() *c20World {
	b := world.NewBase(5*time.Minute, kit.Kinds...)
	scheme := k8sruntime.NewScheme()
	_ = v1alpha1.AddToScheme(scheme)
	_ = apiextensionsv1.AddToScheme(scheme)
	crd := func(res, kind string, status, oldStatus bool) *apiextensionsv1.CustomResourceDefinition {
		v := apiextensionsv1.CustomResourceDefinitionVersion{Name: "v1", Served: true, Storage: true}
		if status {
			v.Subresources = &apiextensionsv1.CustomResourceSubresources{Status: &apiextensionsv1.CustomResourceSubresourceStatus{}}
		}
		return &apiextensionsv1.CustomResourceDefinition{ObjectMeta: metav1.ObjectMeta{Name: res + ".ex.io"},
			// served in two versions, the older one listed first; subresources are per version: the older version of
			// nothings HAS a status subresource, the one the controllers name has not
			Spec: apiextensionsv1.CustomResourceDefinitionSpec{Group: "ex.io", Names: apiextensionsv1.CustomResourceDefinitionNames{Plural: res, Kind: kind}, Versions: []apiextensionsv1.CustomResourceDefinitionVersion{func() apiextensionsv1.CustomResourceDefinitionVersion {
				old := *v.DeepCopy()
				old.Name, old.Storage = "v1beta1", false
				old.Subresources = nil
				if oldStatus {
					old.Subresources = &apiextensionsv1.CustomResourceSubresources{Status: &apiextensionsv1.CustomResourceSubresourceStatus{}}
				}
				return old
			}(), v}}}
	}
	k8s := fake.NewClientBuilder().WithScheme(scheme).WithObjects(crd("things", "Thing", true, true), crd("nothings", "NoThing", false, true)).Build()
	ctx := common.ControllerContext{K8sClient: k8s, Resources: b.Resources, DynClient: b.DynClient, DynInformers: b.Factory,
		McInformerFactory: mcinformers.NewSharedInformerFactory(b.McClient, time.Hour), McClient: b.McClient, EventRecorder: b.Rec}
	x := &c20World{Base: b, k8s: k8s, object: map[string]string{}, running: map[string]string{}, inst: map[string]*parentController{},
		queues: map[*parentController]*world.RecQueue{}, stoppedPaths: map[string]bool{}}
	x.mc = NewMetacontroller(ctx, b.McClient, 0, &common.ApplyOptions{Strategy: common.ApplyStrategyDynamicApply})
	// a parent object exists in the cluster from the start
	b.Sim.Seed(kit.Obj(kit.Thing, "n1", "p"))
	return x
}

func (x *c20World) bad(key, format string, a ...interface{}) {
	x.findings = append(x.findings, mc.Finding{Key: "C20:" + key, Msg: fmt.Sprintf("after %v: ", x.hist) + fmt.Sprintf(format, a...)})
}

func (x *c20World) events() []string {
	var ev []string
	for _, n := range x.names {
		if x.object[n] == "" {
			for _, s := range x.specs {
				ev = append(ev, "create:"+n+":"+s)
			}
			continue
		}
		ev = append(ev, "noop:"+n, "delete:"+n)
		for _, s := range x.specs {
			if s != x.object[n] {
				ev = append(ev, "update:"+n+":"+s)
			}
		}
	}
	return ev
}

func (x *c20World) apply(ev string) {
	x.hist = append(x.hist, ev)
	parts := strings.Split(ev, ":")
	name := parts[1]
	ctx := context.TODO()
	switch parts[0] {
	case "create":
		cc := &v1alpha1.CompositeController{ObjectMeta: metav1.ObjectMeta{Name: name}, Spec: c20Spec(name, parts[2])}
		if err := x.k8s.Create(ctx, cc); err != nil {
			panic(err)
		}
		x.object[name] = parts[2]
	case "update":
		cc := &v1alpha1.CompositeController{}
		if err := x.k8s.Get(ctx, types.NamespacedName{Name: name}, cc); err != nil {
			panic(err)
		}
		cc.Spec = c20Spec(name, parts[2])
		if err := x.k8s.Update(ctx, cc); err != nil {
			panic(err)
		}
		x.object[name] = parts[2]
	case "noop":
		cc := &v1alpha1.CompositeController{}
		if err := x.k8s.Get(ctx, types.NamespacedName{Name: name}, cc); err != nil {
			panic(err)
		}
		if cc.Labels == nil {
			cc.Labels = map[string]string{}
		}
		cc.Labels["touched"] = fmt.Sprint(len(x.hist))
		if err := x.k8s.Update(ctx, cc); err != nil {
			panic(err)
		}
	case "delete":
		cc := &v1alpha1.CompositeController{ObjectMeta: metav1.ObjectMeta{Name: name}}
		if err := x.k8s.Delete(ctx, cc); err != nil {
			panic(err)
		}
		x.object[name] = ""
	}
	// the reconciler is told about the change
	var rerr error
	p, stack := mc.Recover(func() {
		_, rerr = x.mc.Reconcile(ctx, reconcile.Request{NamespacedName: types.NamespacedName{Name: name}})
	})
	if p != nil {
		x.bad("reconcile-panic:"+x.object[name], "Reconcile panicked (in production this takes the whole process down): %v\n%s", p, stack)
		return
	}
	// model
	prev := x.running[name]
	id := x.object[name]
	switch {
	case id == "":
		x.running[name] = ""
	case c20Valid(id):
		x.running[name] = id
	default:
		x.running[name] = "" // a configuration that cannot start leaves nothing running
	}
	if id != "" && !c20Valid(id) && id != "INVALID-crd-without-status" && rerr == nil {
		x.bad("invalid-config-no-error:"+id, "Reconcile reported success for a configuration that cannot start")
	}
	if id != "" && c20Valid(id) && rerr != nil {
		x.bad("valid-config-error:"+id, "Reconcile failed for a valid configuration: %v", rerr)
	}
	x.check(name, prev, parts[0] == "noop")
}

func (x *c20World) check(name, prev string, noop bool) {
	// running set = model
	for _, n := range []string{"x", "y"} {
		pc := x.mc.parentControllers[n]
		want := x.running[n]
		switch {
		case want == "" && pc != nil:
			x.bad("instance-left-running:"+x.object[n], "controller %s: an instance (spec of hook %s) is still running although the stored object is %q", n, *hookURLOf(pc), x.object[n])
		case want != "" && pc == nil:
			x.bad("instance-missing", "controller %s: no instance running for spec %s", n, want)
		case want != "":
			ws := c20Spec(n, want)
			if !apiequality.Semantic.DeepEqual(ws, pc.cc.Spec) {
				x.bad("instance-has-old-spec", "controller %s runs with a spec that is not the stored one (%s)", n, want)
			}
		}
		old := x.inst[n]
		if n == name && noop && old != nil && pc != old {
			x.bad("noop-update-restarted", "an update that leaves the spec unchanged replaced the running instance of %s", n)
		}
		if old != nil && pc != old {
			x.stopped = append(x.stopped, old)
			x.stoppedPaths[*hookURLOf(old)] = true
		}
		if pc != nil {
			delete(x.stoppedPaths, *hookURLOf(pc))
		}
		x.inst[n] = pc
		if pc != nil && x.queues[pc] == nil {
			// swap in the recording queue (the handlers read pc.queue at call time)
			q := world.NewRecQueue()
			orig := pc.queue
			pc.queue = q
			orig.ShutDown()
			x.queues[pc] = q
		}
	}
	// stopped instances: queue shut down, no handlers left, doneCh closed
	for _, pc := range x.stopped {
		if q := x.queues[pc]; q != nil && !q.Shut {
			x.bad("stopped-queue-open", "a stopped instance still has an open work queue")
		}
		select {
		case <-pc.doneCh:
		default:
			x.bad("stopped-not-done", "a stopped instance's start goroutine has not finished")
		}
		if n := pc.parentInformer.VerifHandlers(); n != 0 {
			x.bad("stopped-has-handlers", "a stopped instance still has %d parent handlers registered", n)
		}
		for _, ci := range pc.childInformers {
			if n := ci.VerifHandlers(); n != 0 {
				x.bad("stopped-has-handlers", "a stopped instance still has %d child handlers registered", n)
			}
		}
	}
	// factory refcounts = sum over running instances (parent + each child resource)
	want := map[string]int{}
	for _, n := range []string{"x", "y"} {
		if id := x.running[n]; id != "" {
			s := c20Spec(n, id)
			want[s.ParentResource.Resource+"."+s.ParentResource.APIVersion]++
			for _, c := range s.ChildResources {
				want[c.Resource+"."+c.APIVersion]++
			}
		}
	}
	got := x.Factory.VerifRefCounts()
	if fmt.Sprint(sortedCounts(want)) != fmt.Sprint(sortedCounts(got)) {
		x.bad("refcounts", "factory subscriptions %v, the running instances account for %v", sortedCounts(got), sortedCounts(want))
	}
	// hook isolation: a parent event reaches every running instance and is answered on its current URL only
	x.Hooks.Reset()
	x.Sim.Edit(kit.Thing, "n1", "p", func(o map[string]interface{}) { kit.Ann(o, "touch", fmt.Sprint(len(x.hist))) })
	for _, q := range x.queues {
		q.Clear()
	}
	x.DeliverAll()
	for _, n := range []string{"x", "y"} {
		pc := x.mc.parentControllers[n]
		if pc == nil {
			continue
		}
		q := x.queues[pc]
		if !q.Has("Add", "n1/p") {
			x.bad("parent-event-not-queued", "a parent change did not reach the queue of the running instance of %s", n)
			continue
		}
		q.Put("n1/p")
		if p, stack := mc.Recover(func() { pc.processNextWorkItem() }); p != nil {
			x.bad("worker-panic", "%v\n%s", p, stack)
		}
	}
	for _, pc := range x.stopped {
		if q := x.queues[pc]; q != nil && len(q.Items()) > 0 {
			x.bad("stopped-instance-woken", "a stopped instance received work %v", q.Items())
		}
	}
	for _, hc := range x.Hooks.Calls {
		okURL := false
		for _, n := range []string{"x", "y"} {
			if id := x.running[n]; id != "" && hc.Path == c20HookPath(n, id) {
				okURL = true
			}
		}
		if !okURL {
			x.bad("hook-call-for-stopped-or-old-instance", "hook %s called although no running instance has that configuration", hc.Path)
		}
	}
	for _, n := range []string{"x", "y"} {
		if id := x.running[n]; id != "" {
			found := false
			for _, hc := range x.Hooks.Calls {
				if hc.Path == c20HookPath(n, id) {
					found = true
				}
			}
			if !found {
				x.bad("running-instance-silent", "the instance of %s did not call its hook %s for a parent event", n, c20HookPath(n, id))
			}
		}
	}
}

func hookURLOf(pc *parentController) *string {
	s := "<none>"
	if pc.cc.Spec.Hooks != nil && pc.cc.Spec.Hooks.Sync != nil && pc.cc.Spec.Hooks.Sync.Webhook != nil {
		wh := pc.cc.Spec.Hooks.Sync.Webhook
		if wh.URL != nil {
			u := strings.TrimPrefix(*wh.URL, "http://"+world.HookHost)
			return &u
		}
		if wh.Path != nil {
			return wh.Path
		}
	}
	return &s
}

func sortedCounts(m map[string]int) []string {
	var out []string
	for k, v := range m {
		if v != 0 {
			out = append(out, fmt.Sprintf("%s=%d", k, v))
		}
	}
	sort.Strings(out)
	return out
}

func (x *c20World) canon() string {
	return fmt.Sprintf("obj=%v run=%v", []string{x.object["x"], x.object["y"]}, []string{x.running["x"], x.running["y"]})
}

func (x *c20World) teardown() {
	for _, pc := range x.mc.parentControllers {
		mc.Recover(func() { pc.Stop() })
	}
}

func TestVerifC20(t *testing.T) {
	r := mc.NewReport("C20", "composite")
	defer r.Write()
	shardI, shardN := mc.Shard()
	type part struct {
		names []string
		specs []string
		depth int
	}
	reduced := []string{"v1", "v2", "etag-timeout-only", "INVALID-no-hooks", "INVALID-crd-without-status"}
	parts := []part{{[]string{"x"}, c20Specs, 3}, {[]string{"x", "y"}, reduced, 3}}
	if mc.Thorough() {
		parts = []part{{[]string{"x"}, c20Specs, 4}, {[]string{"x", "y"}, reduced, 5}, {[]string{"x", "y"}, c20Specs, 3}}
	}
	for pi, pt := range parts {
		sub := mc.NewReport("C20", "tmp")
		mc.BFS(sub, func(hist []string) (string, []string, bool) {
			x := newC20World()
			x.names, x.specs = pt.names, pt.specs
			for _, n := range []string{"x", "y"} {
				for _, s := range c20Specs {
					x.Hooks.Handle(c20HookPath(n, s), world.JSON(func(req map[string]interface{}) interface{} { return kit.M{"status": kit.M{}, "children": kit.L{}} }))
				}
			}
			for _, ev := range hist {
				x.apply(ev)
				if len(x.findings) > 0 {
					break
				}
			}
			for _, f := range x.findings {
				r.Violate(f.Key, f.Msg, kit.M{"events": hist})
			}
			if len(hist) > 0 {
				r.Outcome(strings.Split(hist[len(hist)-1], ":")[0])
			}
			evs := x.events()
			if len(hist) == 0 {
				// the search is sharded by its first event; searches rooted at different first events are independent
				var mine []string
				for i, e := range evs {
					if i%shardN == shardI {
						mine = append(mine, e)
					}
				}
				evs = mine
			}
			c := x.canon()
			if len(hist) > 0 {
				c = hist[0] + "|" + c
			}
			stop := len(x.findings) > 0
			x.teardown()
			return c, evs, stop
		}, mc.BFSOpts{MaxDepth: pt.depth})
		r.States += sub.States
		r.Transitions += sub.Transitions
		r.Evaluations += sub.Transitions
		r.Distinct += sub.States
		if !sub.Exhaustive {
			r.Capped(fmt.Sprintf("part %d (%v, %d specs): %s", pi, pt.names, len(pt.specs), sub.Bound))
		} else {
			r.Infof("part %d (%v, %d specs): %d states, %d transitions, %s", pi, pt.names, len(pt.specs), sub.States, sub.Transitions, sub.Bound)
		}
	}
	r.Sample(kit.M{"events": []string{"create:x:v1", "update:x:INVALID-crd-without-status", "delete:x"}})
}

// TestVerifC20Workers is the life-cycle build of C20: real workers (numWorkers = 2). Only structural
// assertions: after every event the number of live worker goroutines never exceeds 2 x running instances
// (Stop returns only after its workers are gone) and reaches exactly that number (waited for with a long
// liveness deadline, never used as a safety oracle).
func workerCensus() int {
	buf := make([]byte, 1<<20)
	n := runtime.Stack(buf, true)
	return strings.Count(string(buf[:n]), "composite.(*parentController).worker(")
}

// waitCensus waits (liveness, generous wall-clock bound, never a safety oracle) until the number of live worker
// goroutines equals want.
func waitCensus(want int) bool {
	deadline := time.Now().Add(60 * time.Second)
	for time.Now().Before(deadline) {
		if workerCensus() == want {
			return true
		}
		time.Sleep(200 * time.Microsecond)
	}
	return workerCensus() == want
}

var c20LivenessFailures int

func TestVerifC20Workers(t *testing.T) {
	r := mc.NewReport("C20", "workers")
	defer r.Write()
	specs := []string{"v1", "v2", "INVALID-no-hooks", "INVALID-crd-without-status"}
	idx := 0
	var rec func(hist []string)
	rec = func(hist []string) {
		if c20LivenessFailures >= 2 {
			if len(hist) == 1 {
				r.Capped("stopped after 2 failed liveness waits (each waits 60 s); the failures are reported as violations")
			}
			return
		}
		if len(hist) > 0 {
			idx++
			if mc.Mine(idx) {
				x := newC20World()
				x.mc.numWorkers = 2
				x.names, x.specs = []string{"x"}, specs
				for _, s := range c20Specs {
					x.Hooks.Handle(c20HookPath("x", s), world.JSON(func(req map[string]interface{}) interface{} { return kit.M{"status": kit.M{}, "children": kit.L{}} }))
				}
				r.EvalDistinct(true)
				r.Transitions += len(hist)
				for i, ev := range hist {
					x.hist = append(x.hist, ev)
					x.applyRaw(ev)
					want := 0
					if id := x.object["x"]; id != "" && c20Valid(id) {
						want = 2
					}
					if got := workerCensus(); got > want {
						r.Violate("C20:workers:still-running-after-stop", fmt.Sprintf("after %v: %d worker goroutines alive, at most %d may be", hist[:i+1], got, want), kit.M{"events": hist[:i+1]})
					}
					ok := waitCensus(want)
					if !ok {
						c20LivenessFailures++
						r.Violate("C20:workers:census", fmt.Sprintf("after %v: %d worker goroutines, want %d", hist[:i+1], workerCensus(), want), kit.M{"events": hist[:i+1]})
					}
					r.Outcome(fmt.Sprintf("workers=%d", want))
				}
				x.teardown()
				waitCensus(0)
				if idx%7 == 0 {
					r.Sample(kit.M{"events": hist})
				}
				c20InFlight(r, hist, specs)
			}
		}
		if len(hist) >= 3 {
			return
		}
		// enabled events from the model alone
		obj := ""
		for _, ev := range hist {
			p := strings.Split(ev, ":")
			switch p[0] {
			case "create", "update":
				obj = p[2]
			case "delete":
				obj = ""
			}
		}
		var evs []string
		if obj == "" {
			for _, s := range specs {
				evs = append(evs, "create:x:"+s)
			}
		} else {
			evs = append(evs, "noop:x", "delete:x")
			for _, s := range specs {
				if s != obj {
					evs = append(evs, "update:x:"+s)
				}
			}
		}
		for _, ev := range evs {
			rec(append(append([]string{}, hist...), ev))
		}
	}
	rec(nil)
	if i, _ := mc.Shard(); i == 0 {
		for _, last := range []string{"delete:x", "update:x:v2", "update:x:INVALID-no-hooks"} {
			c20InFlightCustomize(r, last)
		}
		for _, last := range []string{"delete:x", "update:x:v2"} {
			c20InFlightRelatedSync(r, last)
		}
	}
	r.States = r.Evaluations
}

// stopBlockedOnWorkers reports whether some goroutine sits in parentController.Stop waiting on a channel
// (the only channel receive in Stop is <-pc.doneCh).
func stopBlockedOnWorkers() bool {
	buf := make([]byte, 1<<20)
	n := runtime.Stack(buf, true)
	for _, g := range strings.Split(string(buf[:n]), "\n\n") {
		lines := strings.SplitN(g, "\n", 3)
		if len(lines) >= 2 && strings.Contains(lines[0], "[chan receive") && strings.Contains(lines[1], "composite.(*parentController).Stop(") {
			return true
		}
	}
	return false
}

// c20InFlight: the last event of hist stops a running instance while one of its workers is inside the sync
// hook. Stop must not return (and so the reconciler must not start the successor or report the deletion
// handled) before that worker is done: otherwise the rest of the sync - hook response, child and status
// writes - happens on behalf of a stopped instance.
func c20InFlight(r *mc.Report, hist []string, specs []string) {
	obj := ""
	for _, ev := range hist[:len(hist)-1] {
		p := strings.Split(ev, ":")
		switch p[0] {
		case "create", "update":
			obj = p[2]
		case "delete":
			obj = ""
		}
	}
	last := strings.Split(hist[len(hist)-1], ":")
	if obj == "" || !c20Valid(obj) || last[0] == "noop" || last[0] == "create" {
		return
	}
	r.EvalDistinct(true)
	x := newC20World()
	x.mc.numWorkers = 2
	x.names, x.specs = []string{"x"}, specs
	entered, release := make(chan struct{}, 16), make(chan struct{})
	var blocking atomic.Bool
	for _, s := range c20Specs {
		path := c20HookPath("x", s)
		x.Hooks.Handle(path, world.JSON(func(req map[string]interface{}) interface{} {
			if path == c20HookPath("x", obj) && blocking.Load() {
				entered <- struct{}{}
				<-release
			}
			return kit.M{"status": kit.M{}, "children": kit.L{}}
		}))
	}
	for _, ev := range hist[:len(hist)-1] {
		x.hist = append(x.hist, ev)
		x.applyRaw(ev)
	}
	if !waitCensus(2) {
		c20LivenessFailures++
		r.Capped(fmt.Sprintf("in-flight %v: the instance never reached 2 workers (reported by the census clause)", hist))
		x.teardown()
		waitCensus(0)
		return
	}
	blocking.Store(true)
	x.Sim.Edit(kit.Thing, "n1", "p", func(o map[string]interface{}) { kit.Ann(o, "touch", "in-flight") })
	x.DeliverAll()
	select {
	case <-entered:
	case <-time.After(5 * time.Minute):
		r.Capped(fmt.Sprintf("in-flight %v: the worker never reached its hook (harness liveness wait)", hist))
		close(release)
		x.teardown()
		return
	}
	done := make(chan struct{})
	go func() {
		defer close(done)
		x.hist = append(x.hist, hist[len(hist)-1])
		x.applyRaw(hist[len(hist)-1])
	}()
	verdict := ""
	limit := time.Now().Add(5 * time.Minute)
	for verdict == "" {
		select {
		case <-done:
			verdict = "returned"
		default:
			if stopBlockedOnWorkers() {
				verdict = "waiting"
			} else if time.Now().After(limit) {
				verdict = "stuck"
			} else {
				time.Sleep(100 * time.Microsecond)
			}
		}
	}
	if verdict == "stuck" {
		c20LivenessFailures++
		r.Capped(fmt.Sprintf("in-flight %v: the reconciler neither returned nor reached Stop within 5 minutes (harness liveness wait)", hist))
	}
	if verdict == "returned" {
		r.Violate("C20:workers:stop-returned-with-sync-in-flight", fmt.Sprintf("%v: the reconciler finished handling the last event while a worker of the obsolete instance was still inside its sync hook; the rest of that sync runs on behalf of a stopped instance", hist), kit.M{"events": hist, "in_flight": true})
	}
	writesAtRelease := len(x.Sim.Log)
	blocking.Store(false)
	close(release)
	<-done
	oldCalls := func() int {
		n := 0
		x.Hooks.Lock()
		for _, c := range x.Hooks.Calls {
			if c.Path == c20HookPath("x", obj) {
				n++
			}
		}
		x.Hooks.Unlock()
		return n
	}
	callsAtReturn := oldCalls()
	_ = writesAtRelease
	want := 0
	if id := x.object["x"]; id != "" && c20Valid(id) {
		want = 2
	}
	if got := workerCensus(); got > want {
		r.Violate("C20:workers:still-running-after-stop", fmt.Sprintf("in-flight %v: %d worker goroutines alive, at most %d may be", hist, got, want), kit.M{"events": hist, "in_flight": true})
	}
	x.Sim.Edit(kit.Thing, "n1", "p", func(o map[string]interface{}) { kit.Ann(o, "touch", "after") })
	x.DeliverAll()
	waitCensus(want)
	if n := oldCalls(); n != callsAtReturn {
		r.Violate("C20:workers:hook-call-after-stop", fmt.Sprintf("in-flight %v: %d hook calls on the stopped instance's URL after the reconciler returned", hist, n-callsAtReturn), kit.M{"events": hist, "in_flight": true})
	}
	r.Outcome("in-flight:" + verdict)
	x.teardown()
	waitCensus(0)
}

// c20InFlightCustomize: the instance is stopped while its first sync is still waiting for the customize hook.
// Whatever that sync subscribes to afterwards (the informers of the related resources the answer names) must
// be released by the time the reconciler is done with the event: no subscription may outlive its instance.
func c20InFlightCustomize(r *mc.Report, last string) {
	hist := []string{"create:x:with-customize", last}
	r.EvalDistinct(true)
	x := newC20World()
	x.mc.numWorkers = 2
	entered, release := make(chan struct{}, 16), make(chan struct{})
	var blocking atomic.Bool
	blocking.Store(true)
	for _, s := range append([]string{"with-customize"}, c20Specs...) {
		x.Hooks.Handle(c20HookPath("x", s), world.JSON(func(req map[string]interface{}) interface{} { return kit.M{"status": kit.M{}, "children": kit.L{}} }))
	}
	x.Hooks.Handle("/x/with-customize/customize", world.JSON(func(req map[string]interface{}) interface{} {
		if blocking.Load() {
			entered <- struct{}{}
			<-release
		}
		return kit.M{"relatedResources": kit.L{kit.M{"apiVersion": "v1", "resource": "others", "labelSelector": kit.M{}}}}
	}))
	x.hist = append(x.hist, hist[0])
	x.applyRaw(hist[0])
	if !waitCensus(2) {
		c20LivenessFailures++
		r.Capped(fmt.Sprintf("in-flight customize %v: the instance never reached 2 workers", hist))
		blocking.Store(false)
		close(release)
		x.teardown()
		waitCensus(0)
		return
	}
	// the parent p is delivered to the instance's informer: its first sync begins
	x.DeliverAll()
	select {
	case <-entered:
	case <-time.After(time.Minute):
		r.Capped(fmt.Sprintf("in-flight customize %v: the worker never reached the customize hook (harness liveness wait)", hist))
		blocking.Store(false)
		close(release)
		x.teardown()
		waitCensus(0)
		return
	}
	done := make(chan struct{})
	go func() {
		defer close(done)
		x.hist = append(x.hist, hist[1])
		x.applyRaw(hist[1])
	}()
	limit := time.Now().Add(5 * time.Minute)
	for !stopBlockedOnWorkers() {
		stop := false
		select {
		case <-done:
			stop = true
		default:
		}
		if stop || time.Now().After(limit) {
			break
		}
		time.Sleep(100 * time.Microsecond)
	}
	blocking.Store(false)
	close(release)
	<-done
	want := 0
	wantRefs := map[string]int{}
	if id := x.object["x"]; id != "" && c20Valid(id) {
		want = 2
		sp := c20Spec("x", id)
		_ = sp
	}
	waitCensus(want)
	// the new instance (if any) may be in its own first sync; the old one's related subscription is "others"
	if n := x.Factory.VerifRefCounts()["others.v1"]; n != 0 {
		r.Violate("C20:workers:subscription-outlives-instance", fmt.Sprintf("%v: the stopped instance still holds %d subscription(s) to the related resource others.v1 that its last sync opened after Stop had begun (factory subscriptions %v)", hist, n, sortedCounts(x.Factory.VerifRefCounts())), kit.M{"events": hist, "in_flight": "customize"})
	}
	_ = wantRefs
	r.Outcome("in-flight-customize:" + strings.Split(last, ":")[0])
	x.teardown()
	waitCensus(0)
}

// c20InFlightRelatedSync: the instance is stopped while one of its workers waits for the cache of a related
// resource to fill (the LIST of that resource keeps failing, so it never does). Whatever the worker does when the
// wait is cut short by the stop, the subscription it opened for the related resource is released.
func c20InFlightRelatedSync(r *mc.Report, last string) {
	hist := []string{"create:x:with-customize", last}
	r.EvalDistinct(true)
	x := newC20World()
	x.mc.numWorkers = 2
	for _, s := range append([]string{"with-customize"}, c20Specs...) {
		x.Hooks.Handle(c20HookPath("x", s), world.JSON(func(req map[string]interface{}) interface{} { return kit.M{"status": kit.M{}, "children": kit.L{}} }))
	}
	x.Hooks.Handle("/x/with-customize/customize", world.JSON(func(req map[string]interface{}) interface{} {
		return kit.M{"relatedResources": kit.L{kit.M{"apiVersion": "v1", "resource": "others", "labelSelector": kit.M{}}}}
	}))
	x.hist = append(x.hist, hist[0])
	x.applyRaw(hist[0])
	if !waitCensus(2) {
		c20LivenessFailures++
		r.Capped(fmt.Sprintf("in-flight related sync %v: the instance never reached 2 workers", hist))
		x.teardown()
		waitCensus(0)
		return
	}
	vcache.StartUnsynced.Store(true)
	defer vcache.StartUnsynced.Store(false)
	x.DeliverAll() // the parent arrives: its first sync asks for related objects and waits for their cache
	limit := time.Now().Add(time.Minute)
	for x.Factory.VerifRefCounts()["others.v1"] == 0 && time.Now().Before(limit) {
		time.Sleep(time.Millisecond)
	}
	if x.Factory.VerifRefCounts()["others.v1"] == 0 {
		r.Capped(fmt.Sprintf("in-flight related sync %v: the worker never subscribed to the related resource (harness liveness wait)", hist))
		x.teardown()
		waitCensus(0)
		return
	}
	time.Sleep(150 * time.Millisecond) // let the worker reach the wait (it polls every 100 ms)
	vcache.StartUnsynced.Store(false)
	x.hist = append(x.hist, hist[1])
	x.applyRaw(hist[1])
	want := 0
	if id := x.object["x"]; id != "" && c20Valid(id) {
		want = 2
	}
	waitCensus(want)
	// the successor (update:x:v2 has no customize hook) never asks for "others": whatever is left is the old one's
	deadline := time.Now().Add(10 * time.Second)
	for x.Factory.VerifRefCounts()["others.v1"] != 0 && time.Now().Before(deadline) {
		time.Sleep(10 * time.Millisecond)
	}
	if n := x.Factory.VerifRefCounts()["others.v1"]; n != 0 {
		r.Violate("C20:workers:subscription-outlives-instance:related-cache-never-synced", fmt.Sprintf("%v: the instance was stopped while a worker waited for the cache of the related resource others.v1 (whose LIST keeps failing); 10 s after the stop it still holds %d subscription(s) to it (factory subscriptions %v)", hist, n, sortedCounts(x.Factory.VerifRefCounts())), kit.M{"events": hist, "in_flight": "related-cache-sync"})
	}
	r.Outcome("in-flight-related-sync:" + strings.Split(last, ":")[0])
	x.teardown()
	waitCensus(0)
}

// applyRaw performs the event and the reconcile without the behaviour checks (real workers own the queues).
func (x *c20World) applyRaw(ev string) {
	parts := strings.Split(ev, ":")
	name := parts[1]
	ctx := context.TODO()
	switch parts[0] {
	case "create":
		_ = x.k8s.Create(ctx, &v1alpha1.CompositeController{ObjectMeta: metav1.ObjectMeta{Name: name}, Spec: c20Spec(name, parts[2])})
		x.object[name] = parts[2]
	case "update":
		cc := &v1alpha1.CompositeController{}
		_ = x.k8s.Get(ctx, types.NamespacedName{Name: name}, cc)
		cc.Spec = c20Spec(name, parts[2])
		_ = x.k8s.Update(ctx, cc)
		x.object[name] = parts[2]
	case "noop":
		cc := &v1alpha1.CompositeController{}
		_ = x.k8s.Get(ctx, types.NamespacedName{Name: name}, cc)
		cc.Labels = map[string]string{"touched": fmt.Sprint(len(x.hist))}
		_ = x.k8s.Update(ctx, cc)
	case "delete":
		_ = x.k8s.Delete(ctx, &v1alpha1.CompositeController{ObjectMeta: metav1.ObjectMeta{Name: name}})
		x.object[name] = ""
	}
	if p, stack := mc.Recover(func() {
		_, _ = x.mc.Reconcile(ctx, reconcile.Request{NamespacedName: types.NamespacedName{Name: name}})
	}); p != nil {
		x.bad("reconcile-panic", "%v\n%s", p, stack)
	}
}
