//go:build verif

package composite

import (
	"net/http"
	"fmt"
	"sort"
	"strings"
	"testing"

	metav1 "k8s.io/apimachinery/pkg/apis/meta/v1"
	"k8s.io/client-go/tools/cache"

	"metacontroller/pkg/controller/common"
	"metacontroller/pkg/internal/verif/kit"
	"metacontroller/pkg/internal/verif/mc"
	"metacontroller/pkg/internal/verif/sim"
	"metacontroller/pkg/internal/verif/world"
)

// C14: every change that can alter a parent's reconciliation enqueues that parent (DESIGN §4 C14).
// Handlers are installed by the real Start(); events are delivered synchronously through the controlled
// informers; the recording queue is compared with the decision table written from the statement.

const c14Fin = "metacontroller.io/compositecontroller-cc"

type c14Cfg struct {
	Cluster      bool
	GenSel       bool
	IgnoreStatus bool
	Selector     bool
	NoFinalize   bool // no finalize hook configured: a finalizer still on a parent is a leftover the next sync removes
}

type c14Case struct {
	Cfg   c14Cfg
	Event string
	// OtherStopped: a second hosted controller on the same parent and child resources (so it shares every
	// informer with this one) was started and stopped again before the event
	OtherStopped bool
}

type c14World struct {
	*cworld
	cfg     c14Cfg
	pk      *sim.Kind
	parents map[string]kit.M // p1..p4
}

func (x *c14World) pns(name string) string {
	if x.cfg.Cluster {
		return ""
	}
	if name == "p4" {
		return "n2"
	}
	return "n1"
}

// wanted: the parent matches the controller's selector or still carries its finalizer.
func (x *c14World) wanted(p kit.M) bool {
	if kit.HasFinalizer(p, c14Fin) {
		return true
	}
	return !x.cfg.Selector || kit.Str(p, "metadata", "labels", "app") == "x"
}

func (x *c14World) key(p kit.M) string { return parentKey(kit.NS(p), kit.Name(p)) }

func c14Build(cfg c14Cfg, customize bool) *c14World {
	pk := kit.Thing
	if cfg.Cluster {
		pk = kit.CThing
	}
	o := ccOpt{parent: pk, children: []*sim.Kind{kit.Leaf}, generateSel: cfg.GenSel, ignoreStatus: cfg.IgnoreStatus, customize: customize, finalize: !cfg.NoFinalize}
	if cfg.Selector {
		o.selector = &metav1.LabelSelector{MatchLabels: map[string]string{"app": "x"}}
	}
	x := &c14World{cworld: newCWorld(o, true), cfg: cfg, pk: pk, parents: map[string]kit.M{}}
	mk := func(id, name, app string, fin bool) {
		p := kit.Obj(pk, x.pns(id), name)
		kit.Field(p, "uid-"+id, "metadata", "uid")
		kit.Labels(p, "app", app)
		kit.Field(p, kit.M{"matchLabels": kit.M{"c": strings.TrimPrefix(id, "p")}}, "spec", "selector")
		if id == "p4" {
			kit.Field(p, kit.M{"matchLabels": kit.M{"c": "1"}}, "spec", "selector")
		}
		if fin {
			kit.Finalizers(p, c14Fin)
		}
		x.Sim.Seed(p)
		x.parents[id] = x.Sim.Get(pk, x.pns(id), name)
	}
	mk("p1", "p1", "x", false)
	// p6: a selector made of a negative requirement only - it selects exactly the children WITHOUT the label c,
	// among them children without any label at all
	mk("p6", "p6", "x", false)
	x.Sim.Edit(pk, x.pns("p6"), "p6", func(o map[string]interface{}) {
		kit.Field(o, map[string]interface{}{"matchExpressions": []interface{}{map[string]interface{}{"key": "c", "operator": "DoesNotExist"}}}, "spec", "selector")
	})
	x.parents["p6"] = x.Sim.Get(pk, x.pns("p6"), "p6")
	mk("p2", "p2", "y", false)
	mk("p3", "p3", "y", true)
	// p5: does not match, carries our finalizer, and is being deleted in the foreground (garbage-collector finalizer)
	mk("p5", "p5", "y", true)
	x.Sim.Edit(pk, x.pns("p5"), "p5", func(o map[string]interface{}) {
		kit.Deleting(kit.Finalizers(o, c14Fin, "foregroundDeletion"))
	})
	x.parents["p5"] = x.Sim.Get(pk, x.pns("p5"), "p5")
	if !cfg.Cluster {
		mk("p4", "p1", "x", false)
	}
	x.Hooks.Handle("/cc/sync", world.JSON(func(req map[string]interface{}) interface{} { return kit.M{"status": kit.M{}, "children": kit.L{}} }))
	x.Hooks.Handle("/cc/finalize", world.JSON(func(req map[string]interface{}) interface{} { return kit.M{"status": kit.M{}, "children": kit.L{}} }))
	customizeAnswer := world.JSON(func(req map[string]interface{}) interface{} {
		// only p1-named parents declare related objects: Others labelled rel=1
		if kit.Str(req, "parent", "metadata", "name") != "p1" {
			return kit.M{"relatedResources": kit.L{}}
		}
		if cfg.Cluster {
			// cluster-scoped parents: selected by NAME, in any namespace (no namespace in the rule)
			return kit.M{"relatedResources": kit.L{kit.M{"apiVersion": "v1", "resource": "others", "names": kit.L{"r"}}}}
		}
		return kit.M{"relatedResources": kit.L{kit.M{"apiVersion": "v1", "resource": "others", "labelSelector": kit.M{"matchLabels": kit.M{"rel": "1"}}}}}
	})
	x.Hooks.Handle("/cc/customize", func(hc *world.HookCall) (int, http.Header, []byte, error) {
		// for p2 and p3 (never synced in the related-object cases, so nothing is remembered for them) the hook is
		// failing: their problem, not p1's
		if n := kit.Str(hc.Parsed, "parent", "metadata", "name"); n == "p2" || n == "p3" {
			return 503, nil, []byte("no answer for this parent right now"), nil
		}
		return customizeAnswer(hc)
	})
	x.DeliverAll()
	return x
}

func bump(o kit.M) kit.M {
	c := kit.Copy(o)
	rv := kit.Str(c, "metadata", "resourceVersion")
	kit.Field(c, rv+"1", "metadata", "resourceVersion")
	return c
}

func (x *c14World) child(ns, name string, mod func(o kit.M)) kit.M {
	o := kit.Obj(kit.Leaf, ns, name)
	kit.Field(o, "uid-"+name, "metadata", "uid")
	kit.Field(o, "100", "metadata", "resourceVersion")
	if mod != nil {
		mod(o)
	}
	return o
}

// c14Events lists the event names for a configuration.
func c14Events(cfg c14Cfg) []string {
	var ev []string
	for _, p := range []string{"p1", "p2", "p3", "p5"} {
		for _, e := range []string{"add", "delete", "tombstone", "upd-status", "upd-generation", "upd-labels", "upd-annotations", "upd-deleting", "upd-app-flip"} {
			ev = append(ev, "parent:"+p+":"+e)
		}
	}
	ev = append(ev, "parent-resync")
	for _, role := range []string{"owned-p1", "owned-p2", "owned-p3", "owned-p5", "wrong-uid", "wrong-kind", "wrong-group", "foreign-owned", "orphan-match", "orphan-nomatch", "orphan-unlabelled", "orphan-deleting", "owned-p1-other-ns", "owned-p1-deleting", "owned-p1-other-version"} {
		for _, e := range []string{"add", "update", "delete", "tombstone", "resync"} {
			ev = append(ev, "child:"+role+":"+e)
		}
	}
	ev = append(ev, "child:orphan-relabel-in:update", "child:orphan-relabel-out:update")
	for _, e := range []string{"add", "update-into", "update-outof", "update-still", "delete", "tombstone", "resync", "add-nomatch"} {
		ev = append(ev, "related:"+e)
	}
	return ev
}

func c14Run(c c14Case) []mc.Finding {
	var f []mc.Finding
	bad := func(key, format string, a ...interface{}) {
		f = append(f, mc.Finding{Key: "C14:" + key + ":" + c.Event, Msg: fmt.Sprintf("%+v: ", c) + fmt.Sprintf(format, a...)})
	}
	parts := strings.Split(c.Event, ":")
	x := c14Build(c.Cfg, parts[0] == "related")
	if c.OtherStopped {
		o2 := ccOpt{name: "c2", parent: x.pk, children: []*sim.Kind{kit.Leaf}, generateSel: c.Cfg.GenSel, finalize: !c.Cfg.NoFinalize}
		if c.Cfg.Selector {
			o2.selector = &metav1.LabelSelector{MatchLabels: map[string]string{"app": "x"}}
		}
		w2, err := attachComposite(x.Base, o2, true)
		if err != nil {
			bad("setup", "second controller: %v", err)
			return f
		}
		x.Hooks.Handle("/c2/sync", world.JSON(func(req map[string]interface{}) interface{} { return kit.M{"status": kit.M{}, "children": kit.L{}} }))
		x.Hooks.Handle("/c2/finalize", world.JSON(func(req map[string]interface{}) interface{} { return kit.M{"status": kit.M{}, "children": kit.L{}} }))
		if p, stack := mc.Recover(func() { w2.PC.Stop() }); p != nil {
			bad("other-controller-stop-panic", "%v\n%s", p, stack)
			return f
		}
		x.Q.Clear()
	}
	pinf := x.Informer(x.pk)
	cinf := x.Informer(kit.Leaf)
	if pinf == nil || cinf == nil {
		bad("shared-informer-gone", "the shared informer this controller is subscribed to is gone (parent informer present: %v, child informer present: %v) although only ANOTHER subscriber closed its subscription", pinf != nil, cinf != nil)
		return f
	}
	want := map[string]bool{}    // keys that must be queued
	mayAlso := map[string]bool{} // keys that may be queued (statement is silent / permissive)
	never := map[string]string{} // keys that must not be queued -> reason
	for id, p := range x.parents {
		if !x.wanted(p) {
			never[x.key(p)] = id + " neither matches nor carries the finalizer"
		}
	}
	dec := func(o kit.M) interface{} { return world.DecodeUnstructured(o) }
	var fire func()
	switch parts[0] {
	case "parent":
		id, e := parts[1], parts[2]
		p := x.parents[id]
		key := x.key(p)
		ck := kit.Name(p)
		if kit.NS(p) != "" {
			ck = kit.NS(p) + "/" + ck
		}
		nw := bump(p)
		switch e {
		case "add":
			pinf.Delete(ck, false)
			fire = func() { pinf.Set(world.DecodeUnstructured(p)) }
		case "delete":
			fire = func() { pinf.Delete(ck, false) }
		case "tombstone":
			fire = func() { pinf.Delete(ck, true) }
		case "upd-status":
			kit.Field(nw, int64(7), "status", "x")
		case "upd-generation":
			kit.Field(nw, int64(2), "spec", "v")
			kit.Field(nw, int64(2), "metadata", "generation")
		case "upd-labels":
			kit.Labels(nw, "foo", "bar")
		case "upd-annotations":
			kit.Ann(nw, "foo", "bar")
		case "upd-deleting":
			fins := []string{"ex.io/hold"}
			if kit.HasFinalizer(p, c14Fin) {
				fins = append(fins, c14Fin)
			}
			kit.Deleting(kit.Finalizers(nw, fins...))
		case "upd-app-flip":
			if kit.Str(p, "metadata", "labels", "app") == "x" {
				kit.Labels(nw, "app", "y")
			} else {
				kit.Labels(nw, "app", "x")
			}
		}
		if fire == nil {
			fire = func() { pinf.Set(world.DecodeUnstructured(nw)) }
		}
		subject := p
		if strings.HasPrefix(e, "upd-") {
			subject = nw
		}
		if x.wanted(subject) {
			if c.Cfg.IgnoreStatus && e == "upd-status" {
				mayAlso[key] = true // "only updates that change neither generation, labels, annotations nor deletion state are dropped"
			} else {
				want[key] = true
			}
			delete(never, key)
		} else {
			never[key] = id + " (as delivered) neither matches nor carries the finalizer"
		}
	case "parent-resync":
		fire = func() { pinf.Resync() }
		for _, p := range x.parents {
			if x.wanted(p) {
				if c.Cfg.IgnoreStatus {
					mayAlso[x.key(p)] = true
				} else {
					want[x.key(p)] = true
				}
			}
		}
	case "child":
		role, e := parts[1], parts[2]
		p1 := x.parents["p1"]
		cns := "n1"
		selLabel := func(o kit.M, v string) {
			if c.Cfg.GenSel {
				if v == "1" {
					kit.Labels(o, "controller-uid", "uid-p1")
				} else {
					kit.Labels(o, "controller-uid", "nobody")
				}
			} else {
				kit.Labels(o, "c", v)
			}
		}
		var wake string
		ch := x.child(cns, "k", func(o kit.M) {
			switch role {
			case "owned-p1", "owned-p1-deleting":
				kit.Owners(o, kit.OwnerRef(x.pk, "p1", "uid-p1", true))
				wake = "p1"
			case "owned-p2":
				kit.Owners(o, kit.OwnerRef(x.pk, "p2", "uid-p2", true))
				wake = "p2"
			case "owned-p3":
				kit.Owners(o, kit.OwnerRef(x.pk, "p3", "uid-p3", true))
				wake = "p3"
			case "owned-p5":
				// p5 is being deleted in the foreground (garbage-collector finalizer next to ours): its children going
				// away is exactly what its finalize hook is waiting for
				kit.Owners(o, kit.OwnerRef(x.pk, "p5", "uid-p5", true))
				wake = "p5"
			case "wrong-uid":
				kit.Owners(o, kit.OwnerRef(x.pk, "p1", "uid-stale", true))
			case "wrong-kind":
				kit.Owners(o, kit.M{"apiVersion": x.pk.APIVersion(), "kind": "Other", "name": "p1", "uid": "uid-p1", "controller": true})
			case "owned-p1-other-version":
				// resolution is by group, kind, name and UID: the version in the reference does not matter
				kit.Owners(o, kit.M{"apiVersion": x.pk.Group + "/v1beta1", "kind": x.pk.Kind, "name": "p1", "uid": "uid-p1", "controller": true, "blockOwnerDeletion": true})
				wake = "p1"
			case "wrong-group":
				kit.Owners(o, kit.M{"apiVersion": "other.io/v1", "kind": x.pk.Kind, "name": "p1", "uid": "uid-p1", "controller": true})
			case "foreign-owned":
				kit.Owners(o, kit.OwnerRef(kit.Other, "zz", "uid-zz", true))
				selLabel(o, "1")
			case "orphan-match":
				selLabel(o, "1")
				wake = "p1"
			case "orphan-nomatch":
				selLabel(o, "9")
			case "orphan-unlabelled":
				// no metadata.labels at all: selected by p6's negative selector (not by a generated one)
				if !c.Cfg.GenSel {
					wake = "p6"
				}
			case "orphan-deleting":
				selLabel(o, "1")
				kit.Deleting(kit.Finalizers(o, "ex.io/hold"))
			case "owned-p1-other-ns":
				kit.Owners(o, kit.OwnerRef(x.pk, "p1", "uid-p1", true))
				if c.Cfg.Cluster {
					wake = "p1" // cluster-scoped parents own children in any namespace
				}
			case "orphan-relabel-in":
				selLabel(o, "1")
				wake = "p1"
			case "orphan-relabel-out":
				selLabel(o, "9")
			}
		})
		if role == "owned-p1-other-ns" {
			kit.Field(ch, "n2", "metadata", "namespace")
			cns = "n2"
		}
		if role == "owned-p1-deleting" {
			kit.Deleting(kit.Finalizers(ch, "ex.io/hold"))
		}
		ckey := cns + "/k"
		old := kit.Copy(ch)
		if role == "orphan-relabel-in" {
			selLabel(old, "9")
		}
		if role == "orphan-relabel-out" {
			selLabel(old, "1")
		}
		kit.Field(old, "99", "metadata", "resourceVersion")
		switch e {
		case "add":
			fire = func() { cinf.Set(world.DecodeUnstructured(ch)) }
		case "update":
			cinf.Set(world.DecodeUnstructured(old))
			fire = func() { cinf.Set(world.DecodeUnstructured(ch)) }
		case "delete", "tombstone":
			cinf.Set(world.DecodeUnstructured(ch))
			fire = func() { cinf.Delete(ckey, e == "tombstone") }
			if strings.HasPrefix(role, "orphan") {
				wake = "" // nothing to do for orphans that go away
			}
		case "resync":
			cinf.Set(world.DecodeUnstructured(ch))
			fire = func() { cinf.Resync() }
			wake = ""
			for _, p := range x.parents {
				never[x.key(p)] = "child resyncs enqueue nothing"
			}
		}
		if wake != "" {
			p := x.parents[wake]
			if x.wanted(p) {
				want[x.key(p)] = true
			}
		}
		// a controlled child wakes only the parent its owner reference resolves to
		if strings.HasPrefix(role, "owned") || strings.HasPrefix(role, "wrong") || role == "foreign-owned" {
			for id, p := range x.parents {
				if id != wake {
					if _, ok := never[x.key(p)]; !ok {
						never[x.key(p)] = "controlled child wakes only the parent its owner reference resolves to"
					}
				}
			}
		}
		_ = p1
	case "related":
		e := parts[1]
		// the related informer exists only after a sync asked for related objects
		for _, id := range []string{"p1", "p4"} {
			if p := x.parents[id]; p != nil {
				if err, pn, _ := x.syncKey(x.key(p)); err != nil || pn != nil {
					bad("related-setup", "sync of %s failed: %v %v", id, err, pn)
					return f
				}
			}
		}
		rinf := x.Informer(kit.Other)
		if rinf == nil {
			bad("related-setup", "no related informer after sync")
			return f
		}
		ro := kit.Obj(kit.Other, "n1", "r")
		kit.Field(ro, "uid-r", "metadata", "uid")
		kit.Field(ro, "100", "metadata", "resourceVersion")
		kit.Labels(ro, "rel", "1")
		no := kit.Copy(ro)
		kit.Labels(no, "rel", "0")
		kit.Field(no, "99", "metadata", "resourceVersion")
		woken := true
		switch e {
		case "add":
			fire = func() { rinf.Set(world.DecodeUnstructured(ro)) }
		case "add-nomatch":
			fire = func() { rinf.Set(world.DecodeUnstructured(no)) }
			woken = false
		case "update-into":
			rinf.Set(world.DecodeUnstructured(no))
			fire = func() { rinf.Set(world.DecodeUnstructured(ro)) }
		case "update-outof":
			o2 := kit.Copy(ro)
			kit.Field(o2, "98", "metadata", "resourceVersion")
			rinf.Set(world.DecodeUnstructured(o2))
			fire = func() { rinf.Set(world.DecodeUnstructured(no)) }
		case "update-still":
			o2 := kit.Copy(ro)
			kit.Field(o2, "98", "metadata", "resourceVersion")
			rinf.Set(world.DecodeUnstructured(o2))
			fire = func() { rinf.Set(world.DecodeUnstructured(ro)) }
		case "delete", "tombstone":
			rinf.Set(world.DecodeUnstructured(ro))
			fire = func() { rinf.Delete("n1/r", e == "tombstone") }
		case "resync":
			rinf.Set(world.DecodeUnstructured(ro))
			fire = func() { rinf.Resync() }
			woken = false
		}
		if woken {
			// p1 (n1) selects the object and shows it to its hook; p4 (n2, same rule) may be woken too
			want[x.key(x.parents["p1"])] = true
			if p4 := x.parents["p4"]; p4 != nil {
				mayAlso[x.key(p4)] = true
			}
		}
	}
	_ = dec
	x.Q.Clear()
	p, stack := mc.Recover(fire)
	if p != nil {
		bad("panic", "handler panicked: %v\n%s", p, stack)
		return f
	}
	got := map[string]bool{}
	for _, op := range x.Q.Ops {
		switch op.Op {
		case "Add", "AddAfter", "AddRateLimited":
			got[op.Key] = true
		}
	}
	for k := range want {
		if !got[k] {
			bad("missed", "event must enqueue %q, queue got %v", k, mc.SortedKeys(got))
		}
	}
	for k := range got {
		if reason, bad_ := never[k]; bad_ && !want[k] {
			bad("spurious", "key %q queued although %s", k, reason)
		}
		// every key must resolve through the controller's own key parser to an existing-or-deleted parent
		ns, name, err := cache.SplitMetaNamespaceKey(k)
		if err != nil {
			bad("bad-key", "queued key %q cannot be parsed: %v", k, err)
			continue
		}
		known := false
		for _, pp := range x.parents {
			if kit.NS(pp) == ns && kit.Name(pp) == name {
				known = true
			}
		}
		if !known {
			bad("unknown-key", "queued key %q names no parent of this scenario", k)
		}
	}
	keys := mc.SortedKeys(got)
	sort.Strings(keys)
	c14Outcome = fmt.Sprintf("queued=%d", len(keys))
	_ = common.KeyFunc
	return f
}

var c14Outcome string

func TestVerifC14(t *testing.T) {
	r := mc.NewReport("C14", "composite")
	defer r.Write()
	idx := 0
	for ci := 0; ci < 32; ci++ {
		cfg := c14Cfg{Cluster: ci&1 != 0, GenSel: ci&2 != 0, IgnoreStatus: ci&4 != 0, Selector: ci&8 != 0, NoFinalize: ci&16 != 0}
		for _, ev := range c14Events(cfg) {
			idx++
			if !mc.Mine(idx) {
				continue
			}
			c := c14Case{Cfg: cfg, Event: ev}
			r.Case(c, fmt.Sprintf("%+v", c), func() []mc.Finding { return c14Run(c) })
			r.Outcome(strings.Split(ev, ":")[0] + " " + c14Outcome)
			if strings.HasPrefix(ev, "child:owned-p1:") || strings.HasPrefix(ev, "parent:p1:") {
				c2 := c
				c2.OtherStopped = true
				r.Case(c2, fmt.Sprintf("%+v", c2), func() []mc.Finding { return c14Run(c2) })
				r.Outcome("other-stopped " + c14Outcome)
			}
			if idx%211 == 0 {
				r.Sample(c)
			}
		}
	}
}
