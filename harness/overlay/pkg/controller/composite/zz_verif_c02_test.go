//go:build verif

package composite

import (
	"fmt"
	"reflect"
	"strings"
	"testing"
	"time"

	"metacontroller/pkg/apis/metacontroller/v1alpha1"
	"metacontroller/pkg/controller/common"
	"metacontroller/pkg/internal/verif/kit"
	"metacontroller/pkg/internal/verif/mc"
	"metacontroller/pkg/internal/verif/sim"
	"metacontroller/pkg/internal/verif/vcache"
	"metacontroller/pkg/internal/verif/world"
)

// C02: only objects the parent controls are ever modified or deleted (DESIGN §4 C02).
// Part 1: one rich sync x every request boundary x one environment action on one object (thorough: two).
// Part 2: two parents with overlapping selectors syncing concurrently, all interleavings (bounded).
// The oracle judges every accepted write against the pre-state recorded in the request log.

type c02World struct {
	*cworld
	ssa      bool
	observed map[string]string // cache content at sync start: "resource/ns/name" -> uid
}

func c02Build(ssa bool) *c02World {
	o := ccOpt{parent: kit.Thing, children: []*sim.Kind{kit.Leaf, kit.Widget}, ssa: ssa,
		methods: map[string]v1alpha1.ChildUpdateMethod{"leafs": v1alpha1.ChildUpdateInPlace, "widgets": v1alpha1.ChildUpdateRecreate}}
	w := newCWorld(o, false)
	x := &c02World{cworld: w, ssa: ssa}
	p := kit.Obj(kit.Thing, "n1", "p")
	kit.Field(p, "puid", "metadata", "uid")
	// the parent's selector has a history: while the children were first created it also selected app=other; it
	// is narrowed to app=x before the judged sync (what counts is the selector of the parent as observed then)
	kit.Field(p, kit.M{"matchExpressions": kit.L{kit.M{"key": "app", "operator": "In", "values": kit.L{"x", "other"}}}}, "spec", "selector")
	w.Sim.Seed(p)
	child := func(k *sim.Kind, ns, name, v string) kit.M {
		return kit.Labels(kit.Field(kit.Obj(k, ns, name), v, "spec", "v"), "app", "x")
	}
	ver := "1"
	boot := true
	w.Hooks.Handle("/cc/sync", world.JSON(func(req map[string]interface{}) interface{} {
		if boot {
			return kit.M{"status": kit.M{}, "children": kit.L{child(kit.Leaf, "", "b", "1"), child(kit.Widget, "", "c", "1"), child(kit.Leaf, "", "d", "1"), child(kit.Leaf, "", "e", "1"), child(kit.Leaf, "", "g", "1")}}
		}
		// a: create, b: update, c: recreate, e: adopt (+update), f: desired name occupied by a foreign-owned object, h: desired name occupied by a non-matching orphan
		// the hook wires a plain (non-controller) owner reference to the parent into the child it wants created
		return kit.M{"status": kit.M{"seen": ver}, "children": kit.L{kit.Owners(child(kit.Leaf, "", "a", ver), kit.OwnerRef(kit.Thing, "p", "puid", false)), child(kit.Leaf, "", "b", ver), child(kit.Widget, "", "c", ver), child(kit.Leaf, "", "e", ver),
			child(kit.Leaf, "", "f", ver), child(kit.Leaf, "", "h", ver),
			// ... and one child the hook places in ANOTHER namespace: it is born with the controller reference too
			child(kit.Leaf, "n2", "xo", ver)}}
	}))
	w.DeliverAll()
	for i := 0; i < 4; i++ {
		if err, pn, _ := w.syncKey("n1/p"); err != nil || pn != nil {
			panic(fmt.Sprintf("c02 bootstrap: %v %v", err, pn))
		}
		w.DeliverAll()
	}
	boot = false
	ver = "2"
	w.Sim.Edit(kit.Thing, "n1", "p", func(o map[string]interface{}) {
		kit.Field(o, map[string]interface{}{"matchLabels": map[string]interface{}{"app": "x"}}, "spec", "selector")
	})
	// e: nobody controls it any more; it still lists the parent as a plain (non-controller) owner
	w.Sim.Edit(kit.Leaf, "n1", "e", func(o map[string]interface{}) { kit.Owners(o, kit.OwnerRef(kit.Thing, "p", "puid", false)) })
	w.Sim.Edit(kit.Leaf, "n1", "g", func(o map[string]interface{}) { kit.Labels(o, "app", "y") })
	// bystanders that must never be written
	q := kit.Obj(kit.Thing, "n1", "q")
	kit.Field(q, "quid", "metadata", "uid")
	kit.Field(q, kit.M{"matchLabels": kit.M{"app": "x"}}, "spec", "selector")
	w.Sim.Seed(q)
	w.Sim.Seed(kit.Owners(child(kit.Leaf, "n1", "f", "0"), kit.OwnerRef(kit.Thing, "q", "quid", true)))    // foreign-owned, at a desired name
	w.Sim.Seed(kit.Labels(kit.Field(kit.Obj(kit.Leaf, "n1", "h"), "0", "spec", "v"), "app", "other"))      // non-matching orphan, at a desired name
	w.Sim.Seed(kit.Owners(child(kit.Leaf, "n1", "look", "0"), kit.OwnerRef(kit.Thing, "q", "quid", true))) // foreign-owned look-alike
	w.Sim.Seed(kit.Labels(kit.Obj(kit.Leaf, "n1", "stray"), "app", "other"))                               // non-matching orphan
	// matching object whose controller is q and which lists p as a plain (non-controller) owner
	w.Sim.Seed(kit.Owners(child(kit.Leaf, "n1", "shared", "0"), kit.OwnerRef(kit.Thing, "q", "quid", true), kit.OwnerRef(kit.Thing, "p", "puid", false)))
	for _, n := range []string{"a", "b", "d", "e"} {
		w.Sim.Seed(child(kit.Leaf, "n2", n, "0")) // same names, same labels, other namespace
	}
	w.DeliverAll()
	return x
}

func (x *c02World) snapshotObserved() {
	x.observed = map[string]string{}
	for _, k := range []*sim.Kind{kit.Leaf, kit.Widget, world.RevisionKind} {
		var objs []interface{}
		if k == world.RevisionKind {
			objs = x.RevIndexer.List()
		} else if inf := x.Informer(k); inf != nil {
			objs = inf.GetIndexer().List()
		}
		for _, o := range objs {
			m := kit.M{}
			_ = jsonUnmarshal([]byte(kit.JSON(o)), &m)
			x.observed[k.Resource+"/"+kit.NS(m)+"/"+kit.Name(m)] = kit.UID(m)
		}
	}
}

// judge applies the statement to every accepted write of the log.
func (x *c02World) judge(log []*sim.Request, actorUID func(r *sim.Request) string, bad func(key, format string, a ...interface{})) {
	matches := func(o kit.M) bool { return kit.Str(o, "metadata", "labels", "app") == "x" }
	for _, r := range log {
		// "modified or deleted": a request counts when it changed the store (a byte-identical update that the
		// server accepts as a no-op modifies nothing and is not judged)
		if !r.Mutating() || !r.Applied {
			continue
		}
		me := actorUID(r)
		switch {
		case r.Kind == kit.Thing:
			if kit.UID(r.Pre) != me {
				bad("wrote-other-parent", "%s modified a parent that is not the acting one (uid %s, acting %s)", r, kit.UID(r.Pre), me)
			}
		case r.NS != "n1" && !(r.Pre == nil && r.Name == "xo"):
			bad("wrote-other-namespace", "%s: object outside the parent's namespace written", r)
		case r.Pre == nil:
			// creation (POST or apply-create): born with exactly one controller reference, to the acting parent
			n := 0
			for _, ref := range kit.List(r.Post, "metadata", "ownerReferences") {
				if b, _ := ref.(kit.M)["controller"].(bool); b {
					n++
				}
			}
			if n != 1 || kit.ControllerUID(r.Post) != me {
				key := "created-without-controller-ref"
				if r.Verb == "apply" {
					key = "ssa-create-unowned"
				}
				bad(key, "%s: object created with %d controller references (controller uid %q, acting parent %s)", r, n, kit.ControllerUID(r.Post), me)
			}
		default:
			ctrl := kit.ControllerUID(r.Pre)
			if ctrl == me {
				// ours. A delete must be conditioned on the UID that was observed, with background propagation.
				if r.Verb == "delete" {
					if pu := kit.Str(r.Body, "preconditions", "uid"); pu == "" {
						bad("delete-without-uid-precondition", "%s: delete without a UID precondition", r)
					} else if obs, ok := x.observed[r.Kind.Resource+"/"+r.NS+"/"+r.Name]; ok && pu != obs {
						bad("delete-precondition-not-observed-uid", "%s: precondition uid %s, observed uid %s", r, pu, obs)
					}
					if r.Kind != world.RevisionKind && kit.Str(r.Body, "propagationPolicy") != "Background" {
						bad("delete-propagation", "%s: propagation %q", r, kit.Str(r.Body, "propagationPolicy"))
					}
				}
				// An update of a child we control keeps it ours - the only write that gives a child up is the release
				// of one that stopped matching the selector - and keeps the owner references of others.
				if r.Post != nil && r.Verb != "delete" {
					if kit.ControllerUID(r.Post) != me && matches(r.Pre) {
						bad("own-child-orphaned", "%s removed the parent's controller reference from a child that still matches the selector (owner references now %v)", r, kit.Get(r.Post, "metadata", "ownerReferences"))
					}
					for _, ref := range kit.List(r.Pre, "metadata", "ownerReferences") {
						uid := kit.Str(ref, "uid")
						if uid == me {
							continue
						}
						kept := false
						for _, after := range kit.List(r.Post, "metadata", "ownerReferences") {
							if kit.Str(after, "uid") == uid {
								kept = true
							}
						}
						if !kept {
							bad("foreign-reference-dropped", "%s dropped the owner reference to %v", r, kit.Get(ref, "name"))
						}
					}
				}
				continue
			}
			// not ours: the only permitted write is the ownership edit that adopts a matching orphan
			isAdoption := ctrl == "" && r.Verb == "update" && kit.ControllerUID(r.Post) == me && matches(r.Pre)
			if isAdoption {
				a, b := kit.Copy(r.Pre), kit.Copy(r.Post)
				for _, m := range []kit.M{a, b} {
					md := m["metadata"].(kit.M)
					delete(md, "ownerReferences")
					delete(md, "resourceVersion")
				}
				if !reflect.DeepEqual(a, b) {
					bad("adoption-changed-more", "%s: adoption changed more than the owner references", r)
				}
				continue
			}
			key := "wrote-uncontrolled-object"
			if r.Verb == "apply" {
				key = "ssa-apply-on-uncontrolled-object"
			}
			who := "an orphan"
			if ctrl != "" {
				who = "an object controlled by " + ctrl
			}
			bad(key+":"+r.Verb, "%s modified %s (labels %v) on behalf of parent %s", r, who, kit.Get(r.Pre, "metadata", "labels"), me)
		}
	}
}

type c02Dev struct {
	SSA                bool
	Boundary           int    // the environment acts just before this request index (0 = before the sync: stale cache)
	Action             string // delete, recreate, foreign-owner, clear-owners, relabel
	Target             string // kind/name
	Boundary2, Action2 string
	// Before: the environment acts just before the n-th request with this identity ("verb resource ns/name#n") -
	// the order in which the controller visits its children is not fixed, a request's identity is
	Before string
}

var c02Actions = []string{"delete", "recreate", "recreate-nomatch", "foreign-owner", "clear-owners", "relabel"}

func (x *c02World) act(action string, k *sim.Kind, name string, locked bool) bool {
	edit := x.Sim.Edit
	remove := x.Sim.Remove
	seed := func(o map[string]interface{}) { x.Sim.Seed(o) }
	get := x.Sim.Get
	if locked {
		edit, remove, seed, get = x.Sim.EditLocked, x.Sim.RemoveLocked, x.Sim.SeedLocked, x.Sim.GetLocked
	}
	before := kit.JSON(get(k, "n1", name))
	switch action {
	case "delete":
		remove(k, "n1", name)
	case "recreate":
		old := get(k, "n1", name)
		if old == nil {
			return false
		}
		remove(k, "n1", name)
		n := kit.Obj(k, "n1", name)
		kit.Labels(n, "app", "x")
		kit.Field(n, "someone-else", "spec", "v")
		seed(n)
	case "recreate-nomatch":
		// a different object under the same name, which the parent's selector does not select
		if get(k, "n1", name) == nil {
			return false
		}
		remove(k, "n1", name)
		n := kit.Obj(k, "n1", name)
		kit.Labels(n, "app", "not-yours")
		kit.Field(n, "someone-else", "spec", "v")
		seed(n)
	case "foreign-owner":
		edit(k, "n1", name, func(o map[string]interface{}) { kit.Owners(o, kit.OwnerRef(kit.Thing, "q", "quid", true)) })
	case "clear-owners":
		edit(k, "n1", name, func(o map[string]interface{}) { delete(o["metadata"].(map[string]interface{}), "ownerReferences") })
	case "relabel":
		edit(k, "n1", name, func(o map[string]interface{}) { kit.Labels(o, "app", "moved") })
	}
	return kit.JSON(get(k, "n1", name)) != before
}

var c02Outcome string

// c02Pairs (thorough tier): every pair of environment actions (boundary1 <= boundary2; any two actions on any
// two targets, also the same one) against the same rich sync. One world per shard, restored from a snapshot
// for every case. A foreign write is attributed to the last environment action on the written object.
type c02Act struct {
	Boundary int
	Action   string
	Kind     *sim.Kind
	Name     string
}

func c02Pairs(r *mc.Report, ssa bool, nreq int, idx *int) {
	targets := []struct {
		k    *sim.Kind
		name string
	}{{kit.Leaf, "a"}, {kit.Leaf, "b"}, {kit.Widget, "c"}, {kit.Leaf, "d"}, {kit.Leaf, "e"}, {kit.Leaf, "g"}, {kit.Leaf, "f"}, {kit.Leaf, "h"}}
	var acts []c02Act
	for b := 0; b <= nreq; b++ {
		for _, a := range c02Actions {
			for _, tg := range targets {
				acts = append(acts, c02Act{b, a, tg.k, tg.name})
			}
		}
	}
	x := c02Build(ssa)
	snap := x.Base.Snapshot()
	pairs := 0
	for i := range acts {
		for j := i + 1; j < len(acts); j++ {
			*idx++
			if !mc.Mine(*idx) {
				continue
			}
			if pairs%256 == 0 && time.Now().After(mc.Deadline()) {
				r.Capped(fmt.Sprintf("ssa=%v: time budget reached after %d pairs of this shard", ssa, pairs))
				return
			}
			pairs++
			a1, a2 := acts[i], acts[j]
			dev := c02Dev{SSA: ssa, Boundary: a1.Boundary, Action: a1.Action, Target: a1.Kind.Resource + "/" + a1.Name,
				Boundary2: fmt.Sprint(a2.Boundary), Action2: a2.Action + " " + a2.Kind.Resource + "/" + a2.Name}
			r.Case(dev, fmt.Sprint(*idx), func() []mc.Finding {
				var f []mc.Finding
				// effective environment actions so far: position (request index of the first sync, -1 = before it)
				type done struct {
					pos    int
					obj    string
					action string
				}
				var applied []done
				phase2 := false
				bad := func(key, format string, a ...interface{}) {
					if strings.HasPrefix(key, "wrote-uncontrolled-object") || strings.HasPrefix(key, "ssa-apply-on-uncontrolled-object") {
						// attribute the write to the environment action that made the cached view of the written
						// object wrong: for an adoption of a non-matching orphan the last relabel, otherwise the
						// last action on its ownership / identity; "none" if the environment never touched it
						env := "none"
						for _, v := range a {
							q, ok := v.(*sim.Request)
							if !ok {
								continue
							}
							pos := len(x.Sim.Log)
							for i, lr := range x.Sim.Log {
								if lr == q {
									pos = i
								}
							}
							nonMatching := kit.Str(q.Pre, "metadata", "labels", "app") != "x"
							own, rel := "", ""
							for _, d := range applied {
								if d.obj != q.Kind.Resource+"/"+q.Name || (!phase2 && d.pos > pos) {
									continue
								}
								if d.action == "relabel" {
									rel = d.action
								} else {
									own = d.action
								}
							}
							switch {
							case q.Verb == "update" && nonMatching && rel != "":
								env = rel
							case own != "":
								env = own
							case rel != "":
								env = rel
							}
						}
						key += ":env=" + env
					}
					f = append(f, mc.Finding{Key: "C02:" + key, Msg: fmt.Sprintf("%+v: ", dev) + fmt.Sprintf(format, a...)})
				}
				x.Base.Restore(snap)
				x.Hooks.Reset() // (one world per shard: the recorded hook calls would pile up - gigabytes over a shard's pairs)
				common.VerifResetSSAMemo()
				x.snapshotObserved()
				for _, a := range []c02Act{a1, a2} {
					if a.Boundary == 0 && x.act(a.Action, a.Kind, a.Name, false) {
						applied = append(applied, done{-1, a.Kind.Resource + "/" + a.Name, a.Action})
					}
				}
				n := 0
				x.Sim.Plan = func(q *sim.Request) *sim.Fault {
					for _, a := range []c02Act{a1, a2} {
						if a.Boundary != 0 && a.Boundary == n {
							if x.act(a.Action, a.Kind, a.Name, true) {
								applied = append(applied, done{n - 1, a.Kind.Resource + "/" + a.Name, a.Action})
							}
							if q.Name == a.Name && q.Kind == a.Kind {
								q.Pre = x.Sim.GetLocked(a.Kind, "n1", a.Name)
							}
						}
					}
					n++
					return nil
				}
				x.Sim.ResetLog()
				fp := vcache.TakeFingerprint()
				_, p, stack := x.syncKey("n1/p")
				x.Sim.Plan = nil
				if p != nil {
					bad("panic", "panic %v\n%s", p, stack)
					return f
				}
				if e := fp.Verify(); e != nil {
					bad("cache-mutated", "%v", e)
				}
				x.judge(x.Sim.Log, func(*sim.Request) string { return "puid" }, bad)
				x.Sim.ResetLog()
				phase2 = true
				x.snapshotObserved()
				if _, p, stack := x.syncKey("n1/p"); p != nil {
					bad("panic", "panic in the follow-up sync %v\n%s", p, stack)
				}
				x.judge(x.Sim.Log, func(*sim.Request) string { return "puid" }, bad)
				c02Outcome = fmt.Sprintf("pair:findings=%d", len(f))
				return f
			})
			r.Outcome(c02Outcome)
		}
	}
	r.Infof("ssa=%v: %d pairs of environment actions (this shard) out of %d single actions", ssa, pairs, len(acts))
}

func TestVerifC02(t *testing.T) {
	r := mc.NewReport("C02", "boundaries")
	idx := 0
	for _, ssa := range []bool{false, true} {
		base := c02Build(ssa)
		base.Sim.ResetLog()
		base.syncKey("n1/p")
		nreq := len(base.Sim.Log)
		targets := []struct {
			k    *sim.Kind
			name string
		}{{kit.Leaf, "a"}, {kit.Leaf, "b"}, {kit.Widget, "c"}, {kit.Leaf, "d"}, {kit.Leaf, "e"}, {kit.Leaf, "g"}, {kit.Leaf, "f"}, {kit.Leaf, "h"}}
		run := func(dev c02Dev, plan func(x *c02World, n *int) func(q *sim.Request) *sim.Fault, pre func(x *c02World)) {
			idx++
			if dev.Before != "" {
				if !mc.MineKey(fmt.Sprintf("%+v", dev)) {
					return
				}
			} else if !mc.Mine(idx) {
				return
			}
			r.Case(dev, fmt.Sprint(idx), func() []mc.Finding {
				var f []mc.Finding
				bad := func(key, format string, a ...interface{}) {
					if strings.HasPrefix(key, "wrote-uncontrolled-object") || strings.HasPrefix(key, "ssa-apply-on-uncontrolled-object") {
						key += ":env=" + dev.Action // which environment step made the cache wrong
					}
					f = append(f, mc.Finding{Key: "C02:" + key, Msg: fmt.Sprintf("%+v: ", dev) + fmt.Sprintf(format, a...)})
				}
				x := c02Build(ssa)
				x.snapshotObserved()
				if pre != nil {
					pre(x)
				}
				n := 0
				if plan != nil {
					x.Sim.Plan = plan(x, &n)
				}
				x.Sim.ResetLog()
				fp := vcache.TakeFingerprint()
				_, p, stack := x.syncKey("n1/p")
				x.Sim.Plan = nil
				if p != nil {
					bad("panic", "panic %v\n%s", p, stack)
					return f
				}
				if e := fp.Verify(); e != nil {
					bad("cache-mutated", "%v", e)
				}
				x.judge(x.Sim.Log, func(*sim.Request) string { return "puid" }, bad)
				// a second sync on the (partly stale) caches: still nothing foreign may be written
				x.Sim.ResetLog()
				x.snapshotObserved()
				if _, p, stack := x.syncKey("n1/p"); p != nil {
					bad("panic", "panic in the follow-up sync %v\n%s", p, stack)
				}
				x.judge(x.Sim.Log, func(*sim.Request) string { return "puid" }, bad)
				c02Outcome = fmt.Sprintf("findings=%d", len(f))
				return f
			})
			r.Outcome(c02Outcome)
		}
		// no deviation
		run(c02Dev{SSA: ssa, Boundary: -1, Action: "none"}, nil, nil)
		for b := 0; b <= nreq; b++ {
			for _, action := range c02Actions {
				for _, tg := range targets {
					bb, act, tgt := b, action, tg
					dev := c02Dev{SSA: ssa, Boundary: bb, Action: act, Target: tgt.k.Resource + "/" + tgt.name}
					if bb == 0 {
						run(dev, nil, func(x *c02World) { x.act(act, tgt.k, tgt.name, false) })
						continue
					}
					run(dev, func(x *c02World, n *int) func(q *sim.Request) *sim.Fault {
						return func(q *sim.Request) *sim.Fault {
							if *n == bb {
								x.act(act, tgt.k, tgt.name, true)
								if q.Name == tgt.name && q.Kind == tgt.k {
									q.Pre = x.Sim.GetLocked(tgt.k, "n1", tgt.name)
								}
							}
							*n++
							return nil
						}
					}, nil)
				}
			}
		}
		// ... and every action on the target of a request just before that very request (whatever position it has
		// in this run: the controller visits its children in map order)
		ids := identN(base.Sim.Log)
		byID := map[string]*sim.Request{}
		for i, id := range ids {
			byID[id] = base.Sim.Log[i]
		}
		nIdent := 0
		for _, id := range mc.SortedKeys(byID) {
			q := byID[id]
			var tg *struct {
				k    *sim.Kind
				name string
			}
			for i := range targets {
				if targets[i].k == q.Kind && targets[i].name == q.Name && q.NS == "n1" {
					tg = &targets[i]
				}
			}
			if tg == nil {
				continue
			}
			for _, action := range c02Actions {
				ident, act, tgt := id, action, *tg
				nIdent++
				run(c02Dev{SSA: ssa, Boundary: -2, Action: act, Target: tgt.k.Resource + "/" + tgt.name, Before: ident}, func(x *c02World, n *int) func(q *sim.Request) *sim.Fault {
					seen := map[string]int{}
					return func(q *sim.Request) *sim.Fault {
						gid := q.Ident()
						seen[gid]++
						if fmt.Sprintf("%s#%d", gid, seen[gid]) == ident {
							x.act(act, tgt.k, tgt.name, true)
							q.Pre = x.Sim.GetLocked(tgt.k, "n1", tgt.name)
						}
						return nil
					}
				}, nil)
			}
		}
		r.Infof("ssa=%v: %d requests in the base sync, %d boundaries x %d actions x %d targets + %d (request identity x action on its target)", ssa, nreq, nreq+1, len(c02Actions), len(targets), nIdent)
		if mc.Thorough() {
			c02Pairs(r, ssa, nreq, &idx)
		}
	}
	r.Write()

	// part 2: two parents with overlapping selectors, concurrently
	if i, _ := mc.Shard(); i == 0 {
		r2 := mc.NewReport("C02", "two-parents")
		bound := 2
		if mc.Thorough() {
			bound = 3
		}
		c02Race(r2, bound)
		r2.Write()
	}
	_ = strings.Join
}

func c02Race(r *mc.Report, bound int) {
	mc.ExploreSchedules(r, bound, 0, func(s *mc.Sched) ([]func(), func(t *mc.Trace) []mc.Finding) {
		w := newCWorld(ccOpt{parent: kit.Thing, children: []*sim.Kind{kit.Leaf}, methods: map[string]v1alpha1.ChildUpdateMethod{"leafs": v1alpha1.ChildUpdateInPlace}}, false)
		x := &c02World{cworld: w}
		for _, n := range []string{"p1", "p2"} {
			p := kit.Obj(kit.Thing, "n1", n)
			kit.Field(p, "uid-"+n, "metadata", "uid")
			kit.Field(p, kit.M{"matchLabels": kit.M{"app": "x"}}, "spec", "selector")
			w.Sim.Seed(p)
		}
		mk := func(name, owner string) kit.M {
			// the parents' own children are already up to date: the only contested writes are those on the orphan,
			// which keeps every thread's request sequence independent of map iteration order
			v := "1"
			if owner == "" {
				v = "0"
			}
			o := kit.Labels(kit.Field(kit.Obj(kit.Leaf, "n1", name), v, "spec", "v"), "app", "x")
			if owner != "" {
				kit.Owners(o, kit.OwnerRef(kit.Thing, owner, "uid-"+owner, true))
			}
			return o
		}
		w.Sim.Seed(mk("one", "p1")) // owned by p1, matches both selectors
		w.Sim.Seed(mk("two", "p2")) // owned by p2
		w.Sim.Seed(mk("orph", ""))  // orphan both want
		// each parent desires its own child (updated) and the orphan; nobody desires the other's child
		w.Hooks.Handle("/cc/sync", world.JSON(func(req map[string]interface{}) interface{} {
			own := map[string]string{"p1": "one", "p2": "two"}[kit.Str(req, "parent", "metadata", "name")]
			ch := kit.L{kit.Labels(kit.Field(kit.Obj(kit.Leaf, "", own), "1", "spec", "v"), "app", "x")}
			if _, ok := kit.Map(req, "children", "Leaf.v1")["orph"]; ok {
				ch = append(ch, kit.Labels(kit.Field(kit.Obj(kit.Leaf, "", "orph"), "1", "spec", "v"), "app", "x"))
			}
			return kit.M{"status": kit.M{}, "children": ch}
		}))
		w.DeliverAll()
		x.snapshotObserved()
		w.Sim.ResetLog()
		actor := map[int64]string{}
		w.Sim.ActorFn = func() string { return actor[mc.Goid()] }
		w.Sim.Gate = func(verb string, k *sim.Kind, ns, name, sub string) {
			s.Yield(verb + " " + k.Resource + " " + name + " " + sub)
		}
		threads := []func(){
			func() { actor[mc.Goid()] = "uid-p1"; w.PC.sync("n1/p1") },
			func() { actor[mc.Goid()] = "uid-p2"; w.PC.sync("n1/p2") },
		}
		judge := func(t *mc.Trace) []mc.Finding {
			w.Sim.Gate, w.Sim.ActorFn = nil, nil
			var f []mc.Finding
			x.judge(w.Sim.Log, func(rq *sim.Request) string { return rq.Actor }, func(key, format string, a ...interface{}) {
				f = append(f, mc.Finding{Key: "C02:race:" + key, Msg: fmt.Sprintf(format, a...)})
			})
			o := w.Sim.Get(kit.Leaf, "n1", "orph")
			r.Outcome("orphan-owner=" + kit.ControllerUID(o))
			return f
		}
		return threads, judge
	})
}
