//go:build verif

package composite

import (
	"fmt"
	"sort"
	"testing"

	"metacontroller/pkg/internal/verif/kit"
	"metacontroller/pkg/internal/verif/mc"
	"metacontroller/pkg/internal/verif/sim"
	"metacontroller/pkg/internal/verif/vcache"
	"metacontroller/pkg/internal/verif/world"
)

// C03: the hook sees exactly the children the parent owns, in the documented shape (DESIGN §4 C03).
// One sync per case; the expected view is computed independently from the cache content.

var c03Roles = []string{"absent", "owned", "owned-nomatch", "orphan-match", "orphan-nomatch", "foreign-owned", "owned+extra-owner", "owned-deleting", "orphan-deleting", "orphan-adopted-elsewhere"}

type c03Slot struct {
	Role string
	NS   string
	Kind string // resource name
}

type c03Case struct {
	Mode          int // 0 no finalize hook; 1 finalize hook, parent alive; 2 finalize hook, parent being deleted (finalizing)
	ClusterParent bool
	Declared      []string
	GenSel        bool
	// NegSel: the parent's selector consists of a negative requirement only (tier NotIn [canary]); what it
	// selects are objects WITHOUT labels, what it rejects carries tier=canary
	NegSel bool
	Slots  []c03Slot
	// OtherStopped: a second controller on the same parent and child resources (it shares every informer with
	// this one) was started and stopped again before the cluster got its contents
	OtherStopped bool
}

func kindByResource(res string) *sim.Kind {
	for _, k := range kit.Kinds {
		if k.Resource == res {
			return k
		}
	}
	panic(res)
}

// hookKey is the documented outer key: Kind.version or Kind.group/version.
func hookKey(k *sim.Kind) string {
	if k.Group == "" {
		return k.Kind + "." + k.Version
	}
	return k.Kind + "." + k.Group + "/" + k.Version
}

var c03Outcome string

func c03Run(c c03Case) []mc.Finding {
	var f []mc.Finding
	bad := func(key, format string, a ...interface{}) {
		f = append(f, mc.Finding{Key: "C03:" + key, Msg: fmt.Sprintf("%+v: ", c) + fmt.Sprintf(format, a...)})
	}
	pk := kit.Thing
	pns := "n1"
	if c.ClusterParent {
		pk, pns = kit.CThing, ""
	}
	var declared []*sim.Kind
	for _, r := range c.Declared {
		declared = append(declared, kindByResource(r))
	}
	w := newCWorld(ccOpt{parent: pk, children: declared, generateSel: c.GenSel, finalize: c.Mode > 0}, false)
	if c.OtherStopped {
		w2, err := attachComposite(w.Base, ccOpt{name: "c2", parent: pk, children: declared, generateSel: c.GenSel}, true)
		if err != nil {
			bad("setup", "second controller: %v", err)
			return f
		}
		if p, stack := mc.Recover(func() { w2.PC.Stop() }); p != nil {
			bad("panic", "stopping the second controller: %v\n%s", p, stack)
			return f
		}
		for _, k := range append([]*sim.Kind{pk}, declared...) {
			if w.Informer(k) == nil {
				bad("shared-informer-gone", "the shared informer for %s that this controller lists its view from is gone although only ANOTHER subscriber closed its subscription: the hook would be sent a frozen view", k.Resource)
				return f
			}
		}
	}
	parent := kit.Obj(pk, pns, "p")
	kit.Field(parent, "puid", "metadata", "uid")
	if c.Mode == 2 {
		kit.Deleting(kit.Finalizers(parent, "metacontroller.io/compositecontroller-cc"))
	}
	if c.NegSel {
		kit.Field(parent, kit.M{"matchExpressions": kit.L{kit.M{"key": "tier", "operator": "NotIn", "values": kit.L{"canary"}}}}, "spec", "selector")
	} else if !c.GenSel {
		kit.Field(parent, kit.M{"matchLabels": kit.M{"app": "x"}}, "spec", "selector")
	}
	w.Sim.Seed(parent)
	matchK, matchV, noV := "app", "x", "y"
	if c.GenSel {
		matchK, matchV, noV = "controller-uid", "puid", "other"
	}
	if c.NegSel {
		matchK, matchV, noV = "", "", "canary"
	}
	yes := func(o kit.M) kit.M {
		if c.NegSel {
			return o // no labels at all
		}
		return kit.Labels(o, matchK, matchV)
	}
	no := func(o kit.M) kit.M {
		if c.NegSel {
			return kit.Labels(o, "tier", noV)
		}
		return kit.Labels(o, matchK, noV)
	}
	// populate slots
	var afterDeliver []func()
	expected := map[string]bool{} // "hookKey|innerKey"
	for i, s := range c.Slots {
		if s.Role == "absent" {
			continue
		}
		k := kindByResource(s.Kind)
		name := []string{"a", "b", "c", "d"}[i]
		ns := s.NS
		if !k.Namespaced {
			ns = ""
		}
		o := kit.Obj(k, ns, name)
		ours := kit.OwnerRef(pk, "p", "puid", true)
		switch s.Role {
		case "owned":
			yes(kit.Owners(o, ours))
		case "owned-nomatch":
			no(kit.Owners(o, ours))
		case "orphan-match":
			yes(o)
		case "orphan-nomatch":
			no(o)
		case "foreign-owned":
			yes(kit.Owners(o, kit.OwnerRef(pk, "q", "quid", true)))
		case "owned+extra-owner":
			yes(kit.Owners(o, kit.OwnerRef(kit.Other, "x", "xuid", false), ours))
		case "owned-deleting":
			kit.Deleting(kit.Finalizers(yes(kit.Owners(o, ours)), "ex.io/hold"))
		case "orphan-deleting":
			kit.Deleting(kit.Finalizers(yes(o), "ex.io/hold"))
		case "orphan-adopted-elsewhere":
			// a matching orphan as far as the cache knows; another parent has adopted it in the meantime, so the
			// adoption is refused by the API server (one controller reference only)
			yes(o)
			kk, nsn, nm := k, ns, name
			afterDeliver = append(afterDeliver, func() {
				w.Sim.Edit(kk, nsn, nm, func(x map[string]interface{}) { kit.Owners(x, kit.OwnerRef(pk, "q", "quid", true)) })
			})
		}
		w.Sim.Seed(o)
		// independent expectation
		isDeclared := false
		for _, d := range declared {
			if d == k {
				isDeclared = true
			}
		}
		inScope := c.ClusterParent || (k.Namespaced && ns == pns)
		visible := false
		switch s.Role {
		case "owned", "owned+extra-owner", "owned-deleting":
			visible = true
		case "orphan-match":
			visible = c.Mode != 2 // a parent that is being deleted neither adopts nor releases
		}
		if isDeclared && inScope && visible {
			inner := name
			if c.ClusterParent && k.Namespaced {
				inner = ns + "/" + name
			}
			expected[hookKey(k)+"|"+inner] = true
		}
	}
	c03Outcome = fmt.Sprintf("expected-objects=%d", len(expected))
	w.DeliverAll()
	for _, fn := range afterDeliver {
		fn()
	}
	// the hook returns one new child without a namespace (with one for cluster parents + namespaced kinds)
	zk := declared[0]
	answer := world.JSON(func(req map[string]interface{}) interface{} {
		z := kit.Obj(zk, "", "z")
		if c.ClusterParent && zk.Namespaced {
			z = kit.Obj(zk, "n2", "z")
		}
		if !c.GenSel && !c.NegSel {
			kit.Labels(z, "app", "x")
		}
		// ... and a second one that already carries what the controller would otherwise add: the generated
		// selector label (a hook echoing the labels of an observed child) - the namespace is defaulted all the same
		y := kit.Copy(z)
		kit.Field(y, "y", "metadata", "name")
		if c.GenSel {
			kit.Labels(y, "controller-uid", kit.Str(req, "parent", "metadata", "uid"))
		}
		return kit.M{"status": kit.M{}, "children": kit.L{z, y}}
	})
	w.Hooks.Handle("/cc/sync", answer)
	w.Hooks.Handle("/cc/finalize", answer)
	cachedJSON := map[string]string{}
	for _, k := range declared {
		if inf := w.Informer(k); inf != nil {
			for _, key := range inf.Keys() {
				o, _, _ := inf.GetIndexer().GetByKey(key)
				cachedJSON[k.Resource+"|"+key] = kit.JSON(o)
			}
		}
	}
	fp := vcache.TakeFingerprint()
	err, p, stack := w.syncKey(parentKey(pns, "p"))
	if p != nil {
		bad("panic", "panic %v\n%s", p, stack)
		return f
	}
	if e := fp.Verify(); e != nil {
		bad("cache-mutated", "%v", e)
	}
	if err != nil && len(afterDeliver) > 0 && len(w.Hooks.Calls) == 0 {
		// the refused adoption ends the sync before the hook is asked anything: nothing was shown to it
		c03Outcome = "adoption-refused-no-hook-call"
		return f
	}
	if err != nil {
		bad("sync-error", "sync failed: %v", err)
		return f
	}
	if len(w.Hooks.Calls) != 1 {
		bad("hook-calls", "%d hook calls", len(w.Hooks.Calls))
		return f
	}
	if wantFin := c.Mode == 2; (w.Hooks.Calls[0].Path == "/cc/finalize") != wantFin || (kit.Get(w.Hooks.Calls[0].Parsed, "finalizing") == true) != wantFin {
		bad("hook-kind", "hook %s finalizing=%v, want finalize=%v", w.Hooks.Calls[0].Path, kit.Get(w.Hooks.Calls[0].Parsed, "finalizing"), wantFin)
	}
	req := w.Hooks.Calls[0].Parsed
	children, ok := req["children"].(kit.M)
	if !ok {
		bad("shape", "children is %T", req["children"])
		return f
	}
	// S1: exactly one outer key per declared resource, present even when empty
	var wantOuter, gotOuter []string
	for _, k := range declared {
		wantOuter = append(wantOuter, hookKey(k))
	}
	for k := range children {
		gotOuter = append(gotOuter, k)
	}
	sort.Strings(wantOuter)
	sort.Strings(gotOuter)
	if fmt.Sprint(wantOuter) != fmt.Sprint(gotOuter) {
		bad("outer-keys", "outer keys %v, want %v", gotOuter, wantOuter)
	}
	// S2: exactly the expected objects, under the documented inner key
	got := map[string]bool{}
	for ok_, grp := range children {
		gm, _ := grp.(kit.M)
		for ik, v := range gm {
			got[ok_+"|"+ik] = true
			// S3: the object sent is the cached object
			vo, _ := v.(kit.M)
			var k *sim.Kind
			for _, d := range declared {
				if hookKey(d) == ok_ {
					k = d
				}
			}
			if k != nil {
				ck := kit.Name(vo)
				if kit.NS(vo) != "" {
					ck = kit.NS(vo) + "/" + ck
				}
				if cj, found := cachedJSON[k.Resource+"|"+ck]; !found || cj != kit.JSON(vo) {
					bad("object-content", "object under %s|%s differs from the cached object", ok_, ik)
				}
			}
		}
	}
	for e := range expected {
		if !got[e] {
			bad("missing", "expected %s in the hook request, got %v", e, mc.SortedKeys(got))
		}
	}
	for g := range got {
		if !expected[g] {
			bad("unexpected", "unexpected %s in the hook request (expected %v)", g, mc.SortedKeys(expected))
		}
	}
	// S4: namespace defaulting of the new child
	wantNS := pns
	if c.ClusterParent {
		wantNS = "n2"
		if !zk.Namespaced {
			wantNS = ""
		}
	}
	for _, zn := range []string{"z", "y"} {
		posted := false
		for _, r := range w.Sim.Log {
			if r.Verb == "create" && r.Kind == zk && r.Name == zn {
				posted = true
				if r.NS != wantNS || r.Code != 201 {
					bad("namespace-default", "new child %s created in namespace %q (code %d), want %q", zn, r.NS, r.Code, wantNS)
				}
			}
		}
		if !posted {
			bad("no-create", "the new desired child %s was not created (err=%v)", zn, err)
		}
	}
	return f
}

func c03Space() (declaredSets [][]string, nslots int) {
	nslots = 2
	if mc.Thorough() {
		nslots = 3
	}
	return nil, nslots
}

func TestVerifC03(t *testing.T) {
	r := mc.NewReport("C03", "composite")
	defer r.Write()
	_, nslots := c03Space()
	type cfg struct {
		cluster  bool
		declared []string
	}
	cfgs := []cfg{
		{false, []string{"leafs"}}, {false, []string{"widgets"}}, {false, []string{"leafs", "widgets"}}, {false, []string{"leafs", "cwidgets"}},
		{true, []string{"leafs"}}, {true, []string{"cwidgets"}}, {true, []string{"leafs", "cwidgets"}},
	}
	for ci, cf := range cfgs {
		kinds := append(append([]string{}, cf.declared...), "others")
		perSlot := len(c03Roles) * 2 * len(kinds)
		dims := []int{3, 3}
		for i := 0; i < nslots; i++ {
			dims = append(dims, perSlot)
		}
		mc.Product(r, dims, func(idx int, d []int) {
			c := c03Case{Mode: d[0], ClusterParent: cf.cluster, Declared: cf.declared, GenSel: d[1] == 1, NegSel: d[1] == 2}
			nontrivial := 0
			for i := 0; i < nslots; i++ {
				x := d[2+i]
				s := c03Slot{Role: c03Roles[x%len(c03Roles)], NS: []string{"n1", "n2"}[(x/len(c03Roles))%2], Kind: kinds[x/(len(c03Roles)*2)]}
				if s.Role != "absent" {
					nontrivial++
				}
				c.Slots = append(c.Slots, s)
			}
			nt := ""
			if nontrivial > 0 {
				nt = fmt.Sprintf("%d/%d", ci, idx)
			}
			r.Case(c, nt, func() []mc.Finding { return c03Run(c) })
			r.Outcome(c03Outcome)
			if nontrivial > 0 && idx%5 == 0 {
				c2 := c
				c2.OtherStopped = true
				r.Case(c2, nt+"/other-stopped", func() []mc.Finding { return c03Run(c2) })
				r.Outcome("other-stopped " + c03Outcome)
			}
			if idx%5003 == 0 {
				r.Sample(c)
			}
		})
	}
}
