//go:build verif

package decorator

import (
	"fmt"
	"sort"
	"testing"

	"metacontroller/pkg/internal/verif/kit"
	"metacontroller/pkg/internal/verif/mc"
	"metacontroller/pkg/internal/verif/sim"
	"metacontroller/pkg/internal/verif/vcache"
	"metacontroller/pkg/internal/verif/world"
)

// C03: the hook sees exactly the children the parent owns, in the documented shape (DESIGN §4 C03).
// One sync per case; the expected view is computed independently from the cache content.

var c03Roles = []string{"absent", "owned+marker", "owned-nomarker", "owned-othermarker", "foreign-owned+marker", "orphan+marker", "owned+marker+extra-owner", "owned+marker-deleting", "plain-owner+foreign-controller+marker", "owned-by-namesake-of-other-kind+marker", "owned+marker+extra-owner-after", "owned+marker+explicit-noncontroller-first"}

type c03Slot struct {
	Role string
	NS   string
	Kind string // resource name
}

type c03Case struct {
	Mode          int // 0 no finalize hook; 1 finalize hook, parent alive; 2 finalize hook, parent being deleted (finalizing)
	ClusterParent bool
	Declared      []string
	GenSel        bool
	Slots         []c03Slot
}

func kindByResource(res string) *sim.Kind {
	for _, k := range kit.Kinds {
		if k.Resource == res {
			return k
		}
	}
	panic(res)
}

// hookKey is the documented outer key: Kind.version or Kind.group/version.
func hookKey(k *sim.Kind) string {
	if k.Group == "" {
		return k.Kind + "." + k.Version
	}
	return k.Kind + "." + k.Group + "/" + k.Version
}

var c03Outcome string

func c03Run(c c03Case) []mc.Finding {
	var f []mc.Finding
	bad := func(key, format string, a ...interface{}) {
		f = append(f, mc.Finding{Key: "C03:" + key, Msg: fmt.Sprintf("%+v: ", c) + fmt.Sprintf(format, a...)})
	}
	pk := kit.Thing
	pns := "n1"
	if c.ClusterParent {
		pk, pns = kit.CThing, ""
	}
	var declared []*sim.Kind
	for _, r := range c.Declared {
		declared = append(declared, kindByResource(r))
	}
	// the decorator decorates a second parent kind as well, and a parent of that kind has the same namespace and
	// name as the one under test: its attachments are its own
	w := newDWorld(dcOpt{parents: []*sim.Kind{pk, kit.NoThing}, attachments: declared, finalize: c.Mode > 0}, false)
	namesake := kit.Obj(kit.NoThing, "n1", "p")
	kit.Field(namesake, "puid-nk", "metadata", "uid")
	w.Sim.Seed(namesake)
	parent := kit.Obj(pk, pns, "p")
	kit.Field(parent, "puid", "metadata", "uid")
	if c.Mode == 2 {
		kit.Deleting(kit.Finalizers(parent, "metacontroller.io/decoratorcontroller-dc"))
	}
	w.Sim.Seed(parent)
	const marker = "metacontroller.k8s.io/decorator-controller"
	// populate slots
	expected := map[string]bool{} // "hookKey|innerKey"
	for i, s := range c.Slots {
		if s.Role == "absent" {
			continue
		}
		k := kindByResource(s.Kind)
		name := []string{"a", "b", "c", "d"}[i]
		ns := s.NS
		if !k.Namespaced {
			ns = ""
		}
		o := kit.Obj(k, ns, name)
		ours := kit.OwnerRef(pk, "p", "puid", true)
		switch s.Role {
		case "owned+marker":
			kit.Ann(kit.Owners(o, ours), marker, "dc")
		case "owned-nomarker":
			kit.Owners(o, ours)
		case "owned-othermarker":
			kit.Ann(kit.Owners(o, ours), marker, "other-dc")
		case "foreign-owned+marker":
			kit.Ann(kit.Owners(o, kit.OwnerRef(pk, "q", "quid", true)), marker, "dc")
		case "orphan+marker":
			kit.Ann(o, marker, "dc")
		case "owned+marker+extra-owner":
			kit.Ann(kit.Owners(o, kit.OwnerRef(kit.Other, "x", "xuid", false), ours), marker, "dc")
		case "plain-owner+foreign-controller+marker":
			// shared attachment: the target is listed as a plain owner, the controller is another object
			kit.Ann(kit.Owners(o, kit.OwnerRef(pk, "q", "quid", true), kit.OwnerRef(pk, "p", "puid", false)), marker, "dc")
		case "owned+marker-deleting":
			kit.Deleting(kit.Finalizers(kit.Ann(kit.Owners(o, ours), marker, "dc"), "ex.io/hold"))
		case "owned+marker+extra-owner-after":
			// the target's controller reference is NOT the last entry of the list
			kit.Ann(kit.Owners(o, ours, kit.OwnerRef(kit.Other, "x", "xuid", false)), marker, "dc")
		case "owned+marker+explicit-noncontroller-first":
			// a plain owner that spells out controller:false, listed before the target's controller reference
			kit.Ann(kit.Owners(o, kit.M{"apiVersion": "v1", "kind": "Other", "name": "x", "uid": "xuid", "controller": false, "blockOwnerDeletion": false}, ours), marker, "dc")
		case "owned-by-namesake-of-other-kind+marker":
			kit.Ann(kit.Owners(o, kit.OwnerRef(kit.NoThing, "p", "puid-nk", true)), marker, "dc")
		}
		w.Sim.Seed(o)
		// independent expectation
		isDeclared := false
		for _, d := range declared {
			if d == k {
				isDeclared = true
			}
		}
		inScope := c.ClusterParent || (k.Namespaced && ns == pns)
		visible := false
		switch s.Role {
		case "owned+marker", "owned+marker+extra-owner", "owned+marker-deleting", "owned+marker+extra-owner-after", "owned+marker+explicit-noncontroller-first":
			visible = true
		}
		if isDeclared && inScope && visible {
			inner := name
			if c.ClusterParent && k.Namespaced {
				inner = ns + "/" + name
			}
			expected[hookKey(k)+"|"+inner] = true
		}
	}
	c03Outcome = fmt.Sprintf("expected-objects=%d", len(expected))
	w.DeliverAll()
	// the hook returns one new child without a namespace (with one for cluster parents + namespaced kinds)
	zk := declared[0]
	answer := world.JSON(func(req map[string]interface{}) interface{} {
		z := kit.Obj(zk, "", "z")
		if c.ClusterParent && zk.Namespaced {
			z = kit.Obj(zk, "n2", "z")
		}
		return kit.M{"attachments": kit.L{z}}
	})
	w.Hooks.Handle("/dc/sync", answer)
	w.Hooks.Handle("/dc/finalize", answer)
	cachedJSON := map[string]string{}
	for _, k := range declared {
		if inf := w.Informer(k); inf != nil {
			for _, key := range inf.Keys() {
				o, _, _ := inf.GetIndexer().GetByKey(key)
				cachedJSON[k.Resource+"|"+key] = kit.JSON(o)
			}
		}
	}
	fp := vcache.TakeFingerprint()
	err, p, stack := w.syncKey(dkey(parent))
	if p != nil {
		bad("panic", "panic %v\n%s", p, stack)
		return f
	}
	if e := fp.Verify(); e != nil {
		bad("cache-mutated", "%v", e)
	}
	if err != nil {
		bad("sync-error", "sync failed: %v", err)
		return f
	}
	if len(w.Hooks.Calls) != 1 {
		bad("hook-calls", "%d hook calls", len(w.Hooks.Calls))
		return f
	}
	if wantFin := c.Mode == 2; (w.Hooks.Calls[0].Path == "/dc/finalize") != wantFin || (kit.Get(w.Hooks.Calls[0].Parsed, "finalizing") == true) != wantFin {
		bad("hook-kind", "hook %s finalizing=%v, want finalize=%v", w.Hooks.Calls[0].Path, kit.Get(w.Hooks.Calls[0].Parsed, "finalizing"), wantFin)
	}
	req := w.Hooks.Calls[0].Parsed
	children, ok := req["attachments"].(kit.M)
	if !ok {
		bad("shape", "attachments is %T", req["attachments"])
		return f
	}
	// S1: exactly one outer key per declared resource, present even when empty
	var wantOuter, gotOuter []string
	for _, k := range declared {
		wantOuter = append(wantOuter, hookKey(k))
	}
	for k := range children {
		gotOuter = append(gotOuter, k)
	}
	sort.Strings(wantOuter)
	sort.Strings(gotOuter)
	if fmt.Sprint(wantOuter) != fmt.Sprint(gotOuter) {
		bad("outer-keys", "outer keys %v, want %v", gotOuter, wantOuter)
	}
	// S2: exactly the expected objects, under the documented inner key
	got := map[string]bool{}
	for ok_, grp := range children {
		gm, _ := grp.(kit.M)
		for ik, v := range gm {
			got[ok_+"|"+ik] = true
			// S3: the object sent is the cached object
			vo, _ := v.(kit.M)
			var k *sim.Kind
			for _, d := range declared {
				if hookKey(d) == ok_ {
					k = d
				}
			}
			if k != nil {
				ck := kit.Name(vo)
				if kit.NS(vo) != "" {
					ck = kit.NS(vo) + "/" + ck
				}
				if cj, found := cachedJSON[k.Resource+"|"+ck]; !found || cj != kit.JSON(vo) {
					bad("object-content", "object under %s|%s differs from the cached object", ok_, ik)
				}
			}
		}
	}
	for e := range expected {
		if !got[e] {
			bad("missing", "expected %s in the hook request, got %v", e, mc.SortedKeys(got))
		}
	}
	for g := range got {
		if !expected[g] {
			bad("unexpected", "unexpected %s in the hook request (expected %v)", g, mc.SortedKeys(expected))
		}
	}
	// S4: namespace defaulting of the new child
	wantNS := pns
	if c.ClusterParent {
		wantNS = "n2"
		if !zk.Namespaced {
			wantNS = ""
		}
	}
	posted := false
	for _, r := range w.Sim.Log {
		if r.Verb == "create" && r.Kind == zk && r.Name == "z" {
			posted = true
			if r.NS != wantNS || r.Code != 201 {
				bad("namespace-default", "new child created in namespace %q (code %d), want %q", r.NS, r.Code, wantNS)
			}
		}
	}
	if !posted {
		bad("no-create", "the new desired child was not created")
	}
	return f
}

func c03Space() (declaredSets [][]string, nslots int) {
	nslots = 2
	if mc.Thorough() {
		nslots = 3
	}
	return nil, nslots
}

func TestVerifC03(t *testing.T) {
	r := mc.NewReport("C03", "decorator")
	defer r.Write()
	_, nslots := c03Space()
	type cfg struct {
		cluster  bool
		declared []string
	}
	cfgs := []cfg{
		{false, []string{"leafs"}}, {false, []string{"widgets"}}, {false, []string{"leafs", "widgets"}},
		{true, []string{"leafs"}}, {true, []string{"cwidgets"}}, {true, []string{"leafs", "cwidgets"}},
	}
	for ci, cf := range cfgs {
		kinds := append(append([]string{}, cf.declared...), "others")
		perSlot := len(c03Roles) * 2 * len(kinds)
		dims := []int{3, 1}
		for i := 0; i < nslots; i++ {
			dims = append(dims, perSlot)
		}
		mc.Product(r, dims, func(idx int, d []int) {
			c := c03Case{Mode: d[0], ClusterParent: cf.cluster, Declared: cf.declared, GenSel: d[1] == 1}
			nontrivial := 0
			for i := 0; i < nslots; i++ {
				x := d[2+i]
				s := c03Slot{Role: c03Roles[x%len(c03Roles)], NS: []string{"n1", "n2"}[(x/len(c03Roles))%2], Kind: kinds[x/(len(c03Roles)*2)]}
				if s.Role != "absent" {
					nontrivial++
				}
				c.Slots = append(c.Slots, s)
			}
			nt := ""
			if nontrivial > 0 {
				nt = fmt.Sprintf("%d/%d", ci, idx)
			}
			r.Case(c, nt, func() []mc.Finding { return c03Run(c) })
			r.Outcome(c03Outcome)
			if idx%5003 == 0 {
				r.Sample(c)
			}
		})
	}
}
