//go:build verif

package decorator

import (
	"fmt"
	"net/http"
	"regexp"
	"strings"
	"testing"

	"metacontroller/pkg/apis/metacontroller/v1alpha1"
	"metacontroller/pkg/internal/verif/kit"
	"metacontroller/pkg/internal/verif/mc"
	"metacontroller/pkg/internal/verif/sim"
	"metacontroller/pkg/internal/verif/vcache"
	"metacontroller/pkg/internal/verif/world"
)

// C12 (decorator part): every request of a rich decorator sync x every error kind, hook faults, sticky
// per-attachment faults, through the real processNextWorkItem; then fault-free continuation.

type c12World struct {
	*dworld
	key  string
	good world.HookFunc
}

func c12Build() *c12World {
	o := dcOpt{parents: []*sim.Kind{kit.Thing}, attachments: []*sim.Kind{kit.Leaf, kit.Widget}, finalize: true,
		methods: map[string]v1alpha1.ChildUpdateMethod{"leafs": v1alpha1.ChildUpdateInPlace, "widgets": v1alpha1.ChildUpdateRecreate}}
	w := newDWorld(o, true)
	p := kit.Obj(kit.Thing, "n1", "p")
	kit.Field(p, "puid", "metadata", "uid")
	kit.Field(p, "2", "spec", "v")
	w.Sim.Seed(p)
	x := &c12World{dworld: w, key: dkey(p)}
	att := func(k *sim.Kind, name, v string) kit.M { return kit.Field(kit.Obj(k, "n1", name), v, "spec", "v") }
	ver := "1"
	boot := world.JSON(func(req map[string]interface{}) interface{} {
		return kit.M{"attachments": kit.L{att(kit.Leaf, "b", "1"), att(kit.Widget, "c", "1"), att(kit.Leaf, "d", "1")}}
	})
	good := world.JSON(func(req map[string]interface{}) interface{} {
		return kit.M{"labels": kit.M{"decorated": ver}, "annotations": kit.M{"note": ver}, "status": kit.M{"seen": ver},
			"attachments": kit.L{att(kit.Leaf, "a", ver), att(kit.Leaf, "b", ver), att(kit.Widget, "c", ver)}}
	})
	w.Hooks.Handle("/dc/sync", boot)
	w.Hooks.Handle("/dc/finalize", good)
	w.DeliverAll()
	for i := 0; i < 3; i++ {
		if err, pn, _ := w.syncKey(x.key); err != nil || pn != nil {
			panic(fmt.Sprintf("c12 decorator bootstrap: %v %v", err, pn))
		}
		w.DeliverAll()
	}
	w.Sim.Edit(kit.Thing, "n1", "p", func(o map[string]interface{}) { delete(o["metadata"].(map[string]interface{}), "finalizers") })
	ver = "2"
	x.good = good
	w.Hooks.Handle("/dc/sync", good)
	w.DeliverAll()
	w.Q.Clear()
	return x
}

var c12UIDRe = regexp.MustCompile(`uid-\d+`)

func (x *c12World) essence() string {
	var parts []string
	for _, o := range x.Sim.All(nil) {
		e := kit.M{"kind": o["kind"], "name": kit.Name(o), "labels": kit.Get(o, "metadata", "labels"), "spec": o["spec"], "fin": kit.Get(o, "metadata", "finalizers")}
		if o["kind"] == "Thing" {
			e["status"] = o["status"]
			e["note"] = kit.Get(o, "metadata", "annotations", "note")
		}
		parts = append(parts, kit.JSON(e))
	}
	return strings.Join(parts, "\n")
}

func (x *c12World) settle() bool {
	for rounds := 0; rounds < 25; rounds++ {
		x.DeliverAll()
		x.Sim.GC()
		x.DeliverAll()
		before := x.Sim.Dump(false)
		x.Q.Clear()
		x.Q.Put(x.key)
		x.Sim.ResetLog()
		x.C.processNextWorkItem()
		writes := 0
		for _, r := range x.Sim.Log {
			if r.Mutating() {
				writes++
			}
		}
		if x.Sim.Dump(false) == before && writes == 0 && len(x.Stale()) == 0 {
			return true
		}
	}
	return false
}

type c12Dev struct {
	Kind   string
	Ident  string
	Sticky string
}

func fabricate(kind string, r *sim.Request) *sim.Fault {
	switch kind {
	case "404":
		return &sim.Fault{Code: 404, Reason: "NotFound"}
	case "409":
		if r.Verb == "create" {
			return &sim.Fault{Code: 409, Reason: "AlreadyExists"}
		}
		return &sim.Fault{Code: 409, Reason: "Conflict"}
	case "410":
		return &sim.Fault{Code: 410, Reason: "Gone"}
	case "422":
		return &sim.Fault{Code: 422, Reason: "Invalid"}
	case "500":
		return &sim.Fault{Code: 500, Reason: "InternalError"}
	case "403":
		return &sim.Fault{Code: 403, Reason: "Forbidden"}
	case "429":
		return &sim.Fault{Code: 429, Reason: "TooManyRequests"}
	case "server-timeout":
		return &sim.Fault{Code: 504, Reason: "Timeout"}
	case "timeout":
		return &sim.Fault{Transport: true}
	case "lost-response":
		return &sim.Fault{Transport: true, Apply: true}
	}
	panic(kind)
}

func identN(log []*sim.Request) []string {
	seen := map[string]int{}
	var out []string
	for _, r := range log {
		id := r.Ident()
		seen[id]++
		out = append(out, fmt.Sprintf("%s#%d", id, seen[id]))
	}
	return out
}

func TestVerifC12(t *testing.T) {
	r := mc.NewReport("C12", "decorator")
	defer r.Write()
	r.DeclareClauses("no-panic", "error-and-requeue", "forget-on-success", "sticky-others-reconciled", "converges-like-fault-free", "benign-race-tolerated")
	base := c12Build()
	base.Q.Put(base.key)
	base.Sim.ResetLog()
	hookAt := 0
	base.Hooks.Gate = func(phase string, c *world.HookCall) {
		if phase == "arrive" {
			hookAt = len(base.Sim.Log)
		}
	}
	base.C.processNextWorkItem()
	base.Hooks.Gate = nil
	ids := identN(base.Sim.Log)
	log := append([]*sim.Request(nil), base.Sim.Log...)
	if !base.settle() {
		r.Violate("C12:baseline", "fault-free decorator run does not settle", nil)
		return
	}
	want := base.essence()
	isChild := func(q *sim.Request) bool { return q.Kind == kit.Leaf || q.Kind == kit.Widget }
	idx := 0
	run := func(dev c12Dev, plan func(x *c12World) func(q *sim.Request) *sim.Fault, hook world.HookFunc, expectErr int) {
		idx++
		if !mc.MineKey(fmt.Sprintf("%+v", dev)) {
			return
		}
		r.Case(dev, fmt.Sprint(idx), func() []mc.Finding {
			var f []mc.Finding
			bad := func(key, format string, a ...interface{}) {
				f = append(f, mc.Finding{Key: "C12:decorator:" + key, Msg: fmt.Sprintf("%+v: ", dev) + fmt.Sprintf(format, a...)})
			}
			x := c12Build()
			if plan != nil {
				x.Sim.Plan = plan(x)
			}
			if hook != nil {
				x.Hooks.Handle("/dc/sync", hook)
			}
			x.Q.Clear()
			x.Q.Put(x.key)
			x.Sim.ResetLog()
			x.Hooks.Reset()
			fp := vcache.TakeFingerprint()
			p, stack := mc.Recover(func() { x.C.processNextWorkItem() })
			x.Sim.Plan = nil
			x.Hooks.Handle("/dc/sync", x.good)
			r.Clause("no-panic")
			if p != nil {
				bad("panic", "worker panicked: %v\n%s", p, stack)
				return f
			}
			if e := fp.Verify(); e != nil {
				bad("cache-mutated", "%v", e)
			}
			rate, forget := x.Q.Has("AddRateLimited", x.key), x.Q.Has("Forget", x.key)
			if rate == forget {
				bad("queue-protocol", "AddRateLimited=%v Forget=%v", rate, forget)
			}
			switch expectErr {
			case 1:
				r.Clause("error-and-requeue")
				if !rate || forget {
					bad("failure-not-retried:"+dev.Kind, "a non-benign failure must make the sync report an error and requeue with back-off (AddRateLimited=%v Forget=%v)", rate, forget)
				}
			case -2:
				r.Clause("benign-race-tolerated")
				if rate {
					bad("benign-race-reported-as-error:"+dev.Kind, "a documented benign race (attachment gone / changed just before the request) made the sync report an error")
				}
			case -1:
				r.Clause("forget-on-success")
				if rate {
					bad("spurious-error", "no failure but the sync reported an error")
				}
			}
			if dev.Sticky != "" {
				r.Clause("sticky-others-reconciled")
				for _, q := range log[hookAt:] {
					if !isChild(q) || !q.Mutating() || q.Name == dev.Sticky {
						continue
					}
					done := false
					for _, g := range x.Sim.Log {
						if g.Kind == q.Kind && g.Name == q.Name && g.Verb == q.Verb && g.Code < 300 && g.Code > 0 {
							done = true
						}
					}
					if !done {
						bad("one-bad-child-blocks-others", "%s %s/%s was not carried out in the sync in which %s kept failing", q.Verb, q.Kind.Resource, q.Name, dev.Sticky)
					}
				}
			}
			r.Clause("converges-like-fault-free")
			if !x.settle() {
				bad("does-not-settle", "not quiescent 25 rounds after the fault")
			} else if got := x.essence(); got != want {
				bad("final-state-differs", "final state differs from the fault-free run:\n--- got\n%s\n--- want\n%s", got, want)
			}
			return f
		})
	}
	for i, q := range log {
		for _, kind := range []string{"404", "409", "410", "422", "500", "403", "429", "server-timeout", "timeout", "lost-response"} {
			if (kind == "lost-response" || kind == "409" || kind == "422" || kind == "410") && !q.Mutating() {
				continue
			}
			id := ids[i]
			parent := q.Kind == kit.Thing
			expect := 1
			switch kind {
			case "404":
				if (isChild(q) && (q.Verb == "delete" || q.Verb == "update")) || parent {
					expect = 0
				}
			case "409":
				if (isChild(q) && (q.Verb == "create" || q.Verb == "update")) || (parent && q.Verb == "update") {
					expect = 0
				}
			}
			run(c12Dev{Kind: kind, Ident: id}, func(x *c12World) func(*sim.Request) *sim.Fault {
				seen := map[string]int{}
				return func(g *sim.Request) *sim.Fault {
					gid := g.Ident()
					seen[gid]++
					if fmt.Sprintf("%s#%d", gid, seen[gid]) == id {
						return fabricate(kind, g)
					}
					return nil
				}
			}, nil, expect)
		}
	}
	// real benign races: the environment really removes / edits the attachment just before the request
	for i, q := range log {
		if !isChild(q) || !(q.Verb == "get" || q.Verb == "update" || q.Verb == "delete") {
			continue
		}
		for _, kind := range []string{"race:gone", "race:edited"} {
			if kind == "race:edited" && q.Verb != "update" {
				continue
			}
			id, k := ids[i], kind
			run(c12Dev{Kind: k, Ident: id}, func(x *c12World) func(*sim.Request) *sim.Fault {
				seen := map[string]int{}
				return func(g *sim.Request) *sim.Fault {
					gid := g.Ident()
					seen[gid]++
					if fmt.Sprintf("%s#%d", gid, seen[gid]) == id {
						if k == "race:gone" {
							x.Sim.RemoveLocked(g.Kind, g.NS, g.Name)
						} else {
							x.Sim.EditLocked(g.Kind, g.NS, g.Name, func(o map[string]interface{}) { kit.Ann(o, "touched-by", "someone") })
						}
						g.Pre = x.Sim.GetLocked(g.Kind, g.NS, g.Name)
					}
					return nil
				}
			}, nil, -2)
		}
	}
	stickyNames := map[string]bool{}
	for _, q := range log[hookAt:] {
		if isChild(q) && q.Mutating() {
			stickyNames[q.Name] = true
		}
	}
	for _, name := range mc.SortedKeys(stickyNames) {
		for _, kind := range []string{"500", "timeout", "422"} {
			nm := name
			run(c12Dev{Kind: kind, Sticky: nm}, func(x *c12World) func(*sim.Request) *sim.Fault {
				return func(g *sim.Request) *sim.Fault {
					if isChild(g) && g.Name == nm && g.Mutating() && len(x.Hooks.Calls) > 0 {
						return fabricate(kind, g)
					}
					return nil
				}
			}, nil, 1)
		}
	}
	hookFault := func(name string, code int, body string, transport bool) {
		run(c12Dev{Kind: "hook:" + name}, nil, func(hc *world.HookCall) (int, http.Header, []byte, error) {
			if transport {
				return 0, nil, nil, fmt.Errorf("dial tcp: connection refused")
			}
			return code, nil, []byte(body), nil
		}, 1)
	}
	hookFault("500", 500, "boom", false)
	hookFault("503", 503, "unavailable", false)
	hookFault("429", 429, "", false) // decorators have no 429 special case: it is an error and is retried with back-off
	hookFault("refused", 0, "", true)
	hookFault("garbage", 200, "<html>", false)
	run(c12Dev{Kind: "none"}, nil, nil, -1)
	_ = c12UIDRe
}
