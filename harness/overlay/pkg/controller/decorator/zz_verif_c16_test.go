//go:build verif

package decorator

import (
	"fmt"
	"reflect"
	"testing"

	metav1 "k8s.io/apimachinery/pkg/apis/meta/v1"

	"metacontroller/pkg/apis/metacontroller/v1alpha1"
	"metacontroller/pkg/internal/verif/kit"
	"metacontroller/pkg/internal/verif/mc"
	"metacontroller/pkg/internal/verif/sim"
	"metacontroller/pkg/internal/verif/vcache"
	"metacontroller/pkg/internal/verif/world"
)

// C16: a decorator changes only labels, annotations, status and its finalizer on the target
// (DESIGN §4 C16). One sync per case; expected target computed independently from the stored target
// and the hook response.

const c16Fin = "metacontroller.io/decoratorcontroller-dc"
const c16Marker = "metacontroller.k8s.io/decorator-controller"

type c16Case struct {
	Sub        bool   // target kind has a status subresource
	TL, TA     [2]int // target labels/annotations: k1 in {absent,"v","w"}, k2 in {absent,"w"}
	TStatus    int    // 0 absent, 1 {s:1}
	ForeignFin bool
	RL, RA     [3]int // response labels/annotations for k1,k3,k2: 0 unnamed, 1 "v", 2 null, 3 "" (k3 only)
	RStatus    int    // 0 null, 1 equal to the observed one, 2 different
	Mode       int    // 0 no finalize hook; 1 finalize hook, live target; 2 finalizing, finalized=false; 3 finalizing, finalized=true; 4 no finalize hook, the sync answer carries a stray finalized=true; 5 finalize hook, target pending deletion held only by a foreign finalizer (ours already gone), finalized=true
	Stale      bool   // the target's spec is edited after the cache was filled
}

func c16Target(c c16Case) kit.M {
	k := kit.NoThing
	if c.Sub {
		k = kit.Thing
	}
	t := kit.Obj(k, "n1", "p")
	kit.Field(t, "puid", "metadata", "uid")
	kit.Field(t, int64(1), "spec", "x")
	vals := []string{"", "v", "w"}
	if c.TL[0] > 0 {
		kit.Labels(t, "k1", vals[c.TL[0]])
	}
	if c.TL[1] > 0 {
		kit.Labels(t, "k2", "w")
	}
	if c.TA[0] > 0 {
		kit.Ann(t, "k1", vals[c.TA[0]])
	}
	if c.TA[1] > 0 {
		kit.Ann(t, "k2", "w")
	}
	if c.TStatus == 1 {
		kit.Field(t, int64(1), "status", "s")
	}
	var fins []string
	if c.ForeignFin {
		fins = append(fins, "ex.io/foreign")
	}
	if c.Mode == 2 || c.Mode == 3 {
		fins = append(fins, c16Fin)
	}
	if len(fins) > 0 {
		kit.Finalizers(t, fins...)
	}
	if c.Mode == 2 || c.Mode == 3 || c.Mode == 5 {
		kit.Deleting(t)
	}
	return t
}

func c16RespMap(r [3]int) kit.M {
	m := kit.M{}
	for i, key := range []string{"k1", "k3", "k2"} {
		switch r[i] {
		case 1:
			m[key] = "v"
		case 2:
			m[key] = nil
		case 3:
			m[key] = "" // a key with the empty string as its value (node-role style markers)
		}
	}
	return m
}

func c16ApplyMap(cur kit.M, resp kit.M) kit.M {
	out := kit.M{}
	for k, v := range cur {
		out[k] = v
	}
	for k, v := range resp {
		if v == nil {
			delete(out, k)
		} else {
			out[k] = v
		}
	}
	return out
}

// c16Expected applies the statement to the stored target.
func c16Expected(c c16Case, t0 kit.M) kit.M {
	e := kit.Copy(t0)
	md := e["metadata"].(kit.M)
	l := c16ApplyMap(kit.Map(e, "metadata", "labels"), c16RespMap(c.RL))
	if len(l) > 0 {
		md["labels"] = l
	} else {
		delete(md, "labels")
	}
	a := c16ApplyMap(kit.Map(e, "metadata", "annotations"), c16RespMap(c.RA))
	if len(a) > 0 {
		md["annotations"] = a
	} else {
		delete(md, "annotations")
	}
	if c.RStatus == 2 {
		e["status"] = kit.M{"s": int64(2)}
	}
	var fins kit.L
	has := false
	for _, x := range kit.List(e, "metadata", "finalizers") {
		if x == c16Fin {
			has = true
			if c.Mode == 3 {
				continue
			}
		}
		fins = append(fins, x)
	}
	if c.Mode == 1 && !has {
		fins = append(fins, c16Fin)
	}
	if len(fins) > 0 {
		md["finalizers"] = fins
	} else {
		delete(md, "finalizers")
	}
	return e
}

func scrub(o kit.M, gen bool) kit.M {
	if o == nil {
		return nil
	}
	c := kit.Copy(o)
	md := c["metadata"].(kit.M)
	delete(md, "resourceVersion")
	if gen {
		delete(md, "generation")
	}
	return c
}

var c16Outcome string

func c16Run(c c16Case) []mc.Finding {
	var f []mc.Finding
	bad := func(key, format string, a ...interface{}) {
		f = append(f, mc.Finding{Key: "C16:" + key, Msg: fmt.Sprintf("%+v: ", c) + fmt.Sprintf(format, a...)})
	}
	pk := kit.NoThing
	if c.Sub {
		pk = kit.Thing
	}
	w := newDWorld(dcOpt{parents: []*sim.Kind{pk}, attachments: []*sim.Kind{kit.Leaf}, finalize: c.Mode > 0 && c.Mode != 4}, false)
	target := c16Target(c)
	w.Sim.Seed(target)
	// bystanders: attachments of other decorators / controllers for the same target
	w.Sim.Seed(kit.Ann(kit.Owners(kit.Obj(kit.Leaf, "n1", "att-other"), kit.OwnerRef(pk, "p", "puid", true)), c16Marker, "other-dc"))
	w.Sim.Seed(kit.Owners(kit.Obj(kit.Leaf, "n1", "att-nomarker"), kit.OwnerRef(pk, "p", "puid", true)))
	w.Sim.Seed(kit.Ann(kit.Owners(kit.Obj(kit.Leaf, "n1", "att-foreign"), kit.OwnerRef(pk, "q", "quid", true)), c16Marker, "dc"))
	// ... of a previous incarnation of the target (same kind, same name, another UID), marker and all
	w.Sim.Seed(kit.Ann(kit.Owners(kit.Obj(kit.Leaf, "n1", "att-previous-incarnation"), kit.OwnerRef(pk, "p", "puid-before", true)), c16Marker, "dc"))
	// ... in ANOTHER NAMESPACE, carrying the target's UID in its controller reference and the marker (a copy made
	// with its metadata intact): owner references do not reach across namespaces
	w.Sim.Seed(kit.Ann(kit.Owners(kit.Obj(kit.Leaf, "n2", "att-other-namespace"), kit.OwnerRef(pk, "p", "puid", true)), c16Marker, "dc"))
	// ... and of an object with the target's kind and name in another API group
	w.Sim.Seed(kit.Ann(kit.Owners(kit.Obj(kit.Leaf, "n1", "att-namesake-group"), kit.M{"apiVersion": "elsewhere.io/v1", "kind": pk.Kind, "name": "p", "uid": "uid-elsewhere", "controller": true}), c16Marker, "dc"))
	w.DeliverAll()
	if c.Stale {
		w.Sim.Edit(pk, "n1", "p", func(o map[string]interface{}) { kit.Field(o, int64(2), "spec", "x") })
	}
	t0 := w.Sim.Get(pk, "n1", "p")
	answer := func(req map[string]interface{}) interface{} {
		out := kit.M{"labels": c16RespMap(c.RL), "annotations": c16RespMap(c.RA), "attachments": kit.L{}}
		switch c.RStatus {
		case 1:
			if st := kit.Get(req, "object", "status"); st != nil {
				out["status"] = st
			}
		case 2:
			out["status"] = kit.M{"s": int64(2)}
		}
		if c.Mode >= 3 {
			out["finalized"] = true
		}
		return out
	}
	w.Hooks.Handle("/dc/sync", world.JSON(answer))
	w.Hooks.Handle("/dc/finalize", world.JSON(answer))
	fp := vcache.TakeFingerprint()
	err, p, stack := w.syncKey(dkey(target))
	if p != nil {
		bad("panic", "panic %v\n%s", p, stack)
		return f
	}
	if e := fp.Verify(); e != nil {
		bad("cache-mutated", "%v", e)
	}
	if err != nil {
		bad("sync-error", "sync failed: %v", err)
	}
	// which hook, and what it was shown
	if len(w.Hooks.Calls) != 1 {
		bad("hook-calls", "%d hook calls", len(w.Hooks.Calls))
		return f
	}
	call := w.Hooks.Calls[0]
	wantPath := "/dc/sync"
	finalizing := c.Mode == 2 || c.Mode == 3 || c.Mode == 5
	if finalizing {
		wantPath = "/dc/finalize"
	}
	if call.Path != wantPath || (kit.Get(call.Parsed, "finalizing") == true) != finalizing {
		bad("hook-kind", "hook %s finalizing=%v, want %s", call.Path, kit.Get(call.Parsed, "finalizing"), wantPath)
	}
	if att := kit.Map(call.Parsed, "attachments", "Leaf.v1"); len(att) != 0 {
		bad("foreign-attachment-reported", "attachments reported to the hook: %v", kit.SortedKeys(att))
	}
	t1 := w.Sim.Get(pk, "n1", "p")
	exp := c16Expected(c, t0)
	if c.Mode == 3 && !c.ForeignFin {
		exp = nil // last finalizer removed from a deleting object: it goes away
	}
	ignoreGen := !c.Sub
	same := func(a, b kit.M) bool { return reflect.DeepEqual(scrub(a, ignoreGen), scrub(b, ignoreGen)) }
	switch {
	case same(t1, exp):
		c16Outcome = "applied"
		if same(t0, exp) {
			c16Outcome = "nothing-to-do"
		}
	case c.Stale && same(t1, t0):
		c16Outcome = "rejected-stale"
	default:
		bad("target-content", "target after sync:\n  got  %s\n  want %s\n  was  %s", kit.JSON(scrub(t1, ignoreGen)), kit.JSON(scrub(exp, ignoreGen)), kit.JSON(scrub(t0, ignoreGen)))
	}
	if t1 != nil && kit.Get(t1, "spec", "x") != kit.Get(t0, "spec", "x") {
		bad("spec-clobbered", "spec changed from %v to %v", kit.Get(t0, "spec"), kit.Get(t1, "spec"))
	}
	// no request when nothing would change; bystanders never written
	for _, r := range w.Sim.Log {
		if !r.Mutating() {
			continue
		}
		if r.Kind == pk && same(t0, exp) {
			bad("needless-write", "nothing to change but %s was sent", r)
		}
		if r.Kind == kit.Leaf {
			bad("bystander-written", "attachment of another controller written: %s", r)
		}
	}
	return f
}

// --- selector logic: decorated <=> (label AND annotation selector) OR finalizer --------------------

type c16SelCase struct {
	LabelSel, AnnSel int // 0 none, 1 matchLabels/matchAnnotations, 2 expression (In), 3 expression (DoesNotExist)
	LabelOK, AnnOK   bool
	HasFin           bool
	Finalize         bool
}

func c16SelRun(c c16SelCase) []mc.Finding {
	var f []mc.Finding
	bad := func(key, format string, a ...interface{}) {
		f = append(f, mc.Finding{Key: "C16:" + key, Msg: fmt.Sprintf("%+v: ", c) + fmt.Sprintf(format, a...)})
	}
	o := dcOpt{parents: []*sim.Kind{kit.Thing}, finalize: c.Finalize}
	exprs := func(kind int) []metav1.LabelSelectorRequirement {
		if kind == 2 {
			return []metav1.LabelSelectorRequirement{{Key: "app", Operator: metav1.LabelSelectorOpIn, Values: []string{"x", "z"}}}
		}
		return []metav1.LabelSelectorRequirement{{Key: "skip", Operator: metav1.LabelSelectorOpDoesNotExist}}
	}
	switch c.LabelSel {
	case 1:
		o.labelSel = &metav1.LabelSelector{MatchLabels: map[string]string{"app": "x"}}
	case 2, 3:
		o.labelSel = &metav1.LabelSelector{MatchExpressions: exprs(c.LabelSel)}
	}
	switch c.AnnSel {
	case 1:
		o.annSel = &v1alpha1.AnnotationSelector{MatchAnnotations: map[string]string{"app": "x"}}
	case 2, 3:
		o.annSel = &v1alpha1.AnnotationSelector{MatchExpressions: exprs(c.AnnSel)}
	}
	w := newDWorld(o, false)
	t := kit.Obj(kit.Thing, "n1", "p")
	set := func(sel int, ok bool, put func(kv ...string)) {
		switch sel {
		case 1, 2:
			if ok {
				put("app", "x")
			} else {
				put("app", "nope")
			}
		case 3:
			if !ok {
				put("skip", "1")
			}
		}
	}
	set(c.LabelSel, c.LabelOK, func(kv ...string) { kit.Labels(t, kv...) })
	set(c.AnnSel, c.AnnOK, func(kv ...string) { kit.Ann(t, kv...) })
	if c.HasFin {
		kit.Finalizers(t, c16Fin)
	}
	w.Sim.Seed(t)
	w.DeliverAll()
	h := world.JSON(func(req map[string]interface{}) interface{} { return kit.M{"labels": kit.M{"k3": "v"}} })
	w.Hooks.Handle("/dc/sync", h)
	w.Hooks.Handle("/dc/finalize", h)
	err, p, stack := w.syncKey(dkey(t))
	if p != nil || err != nil {
		bad("sel-error", "err=%v panic=%v %s", err, p, stack)
		return f
	}
	matches := (c.LabelSel == 0 || c.LabelOK) && (c.AnnSel == 0 || c.AnnOK)
	// a leftover finalizer without a finalize hook is removed first; the object is then decorated only if it matches
	decorated := matches || (c.HasFin && c.Finalize)
	c16Outcome = fmt.Sprintf("decorated=%v", decorated)
	if (len(w.Hooks.Calls) > 0) != decorated {
		bad("decorated-iff", "hook called %d times, want decorated=%v", len(w.Hooks.Calls), decorated)
	}
	t1 := w.Sim.Get(kit.Thing, "n1", "p")
	if (kit.Str(t1, "metadata", "labels", "k3") == "v") != decorated {
		bad("decorated-write", "label written=%v, want decorated=%v", kit.Str(t1, "metadata", "labels", "k3") == "v", decorated)
	}
	if decorated && len(w.Hooks.Calls) == 1 {
		wantFinalize := c.Finalize && !matches
		if (w.Hooks.Calls[0].Path == "/dc/finalize") != wantFinalize {
			bad("finalize-on-unmatch", "hook %s, want finalize=%v", w.Hooks.Calls[0].Path, wantFinalize)
		}
	}
	return f
}

func TestVerifC16(t *testing.T) {
	r := mc.NewReport("C16", "target")
	thorough := mc.Thorough()
	// response alphabet: quick names k1,k3 (k2 stays unnamed); thorough also names k2
	rk2 := 1
	if thorough {
		rk2 = 3
	}
	dims := []int{2, 3, 2, 3, 2, 2, 2, 3, 4, rk2, 3, 4, rk2, 3, 6, 2}
	mc.Product(r, dims, func(idx int, d []int) {
		c := c16Case{Sub: d[0] == 0, TL: [2]int{d[1], d[2]}, TA: [2]int{d[3], d[4]}, TStatus: d[5], ForeignFin: d[6] == 1,
			RL: [3]int{d[7], d[8], d[9]}, RA: [3]int{d[10], d[11], d[12]}, RStatus: d[13], Mode: d[14], Stale: d[15] == 1}
		if c.Mode == 5 && !c.ForeignFin {
			return // nothing would hold the object
		}
		if thorough && (c.RL[1] == 3 || c.RA[1] == 3) && (c.RL[2] != 0 || c.RA[2] != 0) {
			return // the empty-string value runs on the quick tier's response alphabet (k2 unnamed) in both tiers
		}
		if !thorough && (c.Stale || c.Mode > 0) && (c.TL[1] == 1 || c.TA[1] == 1 || c.ForeignFin && c.Mode == 0) {
			// quick tier: the stale / finalizer modes run on the reduced target alphabet
			return
		}
		r.Case(c, fmt.Sprint(idx), func() []mc.Finding { return c16Run(c) })
		r.Outcome(c16Outcome)
		if idx%20011 == 0 {
			r.Sample(c)
		}
	})
	r.Write()

	r2 := mc.NewReport("C16", "selectors")
	mc.Product(r2, []int{4, 4, 2, 2, 2, 2}, func(idx int, d []int) {
		c := c16SelCase{LabelSel: d[0], AnnSel: d[1], LabelOK: d[2] == 0, AnnOK: d[3] == 0, HasFin: d[4] == 1, Finalize: d[5] == 1}
		r2.Case(c, fmt.Sprint(idx), func() []mc.Finding { return c16SelRun(c) })
		r2.Outcome(c16Outcome)
		if idx%37 == 0 {
			r2.Sample(c)
		}
	})
	r2.Write()
}
