//go:build verif

package decorator

import (
	"fmt"
	"net/http"
	"strings"
	"testing"

	"k8s.io/apimachinery/pkg/util/json"

	"metacontroller/pkg/apis/metacontroller/v1alpha1"
	"metacontroller/pkg/internal/verif/kit"
	"metacontroller/pkg/internal/verif/mc"
	"metacontroller/pkg/internal/verif/sim"
	"metacontroller/pkg/internal/verif/vcache"
	"metacontroller/pkg/internal/verif/world"
)

// C13 (decorator part): malformed sync / finalize responses never panic and never cause attachment writes
// once rejected. Same grammar as the composite part.

type c13Cfg struct {
	Finalizing bool
	Strict     bool
	Cluster    bool // the target is a cluster-scoped object (the decorator has a second resource rule for that kind)
}

type c13Case struct {
	Cfg    c13Cfg
	What   string
	Status int
	Body   string
}

func c13Valid() kit.M {
	att := kit.Obj(kit.Leaf, "n1", "a")
	kit.Field(att, "1", "spec", "v")
	kit.Labels(att, "app", "x")
	kit.Ann(att, "p", "q")
	md := att["metadata"].(kit.M)
	md["ownerReferences"] = kit.L{kit.M{"apiVersion": "v1", "kind": "Other", "name": "boss", "uid": "uid-boss"}}
	return kit.M{
		"labels":             kit.M{"k1": "v", "k2": nil},
		"annotations":        kit.M{"k1": "v"},
		"status":             kit.M{"a": int64(1), "conditions": kit.L{kit.M{"type": "Ready", "status": "True"}}},
		"attachments":        kit.L{att},
		"resyncAfterSeconds": int64(0),
		"finalized":          false,
	}
}

var c13Outcome string

func c13Run(c c13Case) []mc.Finding {
	var f []mc.Finding
	bad := func(key, format string, a ...interface{}) {
		f = append(f, mc.Finding{Key: "C13:" + key, Msg: fmt.Sprintf("decorator %+v %s status=%d body=%s: ", c.Cfg, c.What, c.Status, c.Body) + fmt.Sprintf(format, a...)})
	}
	pk, pns := kit.Thing, "n1"
	if c.Cfg.Cluster {
		pk, pns = kit.CThing, ""
	}
	w := newDWorld(dcOpt{parents: []*sim.Kind{kit.Thing, kit.CThing}, attachments: []*sim.Kind{kit.Leaf}, strict: c.Cfg.Strict, finalize: c.Cfg.Finalizing,
		methods: map[string]v1alpha1.ChildUpdateMethod{"leafs": v1alpha1.ChildUpdateInPlace}}, false)
	target := kit.Obj(pk, pns, "p")
	kit.Field(target, "puid", "metadata", "uid")
	if c.Cfg.Finalizing {
		kit.Finalizers(target, "metacontroller.io/decoratorcontroller-dc")
	}
	w.Sim.Seed(target)
	w.DeliverAll()
	validOld, _ := json.Marshal(func() kit.M {
		v := c13Valid()
		old := kit.Copy(v["attachments"].(kit.L)[0].(kit.M))
		kit.Field(old, "old", "metadata", "name")
		v["attachments"] = append(v["attachments"].(kit.L), old)
		return v
	}())
	phase := 0
	h := func(hc *world.HookCall) (int, http.Header, []byte, error) {
		if phase == 0 {
			return 200, nil, validOld, nil
		}
		return c.Status, nil, []byte(c.Body), nil
	}
	w.Hooks.Handle("/dc/sync", h)
	w.Hooks.Handle("/dc/finalize", h)
	if err, p, stack := w.syncKey(dkey(target)); (err != nil && !c.Cfg.Strict) || p != nil {
		bad("setup", "setup sync failed: %v %v %s", err, p, stack)
		return f
	}
	w.DeliverAll()
	if c.Cfg.Finalizing {
		w.Sim.Edit(pk, pns, "p", func(o map[string]interface{}) { kit.Deleting(o) })
		w.DeliverAll()
	}
	w.Sim.ResetLog()
	phase = 1
	fp := vcache.TakeFingerprint()
	err, p, stack := w.syncKey(dkey(target))
	if p != nil {
		c13Outcome = "panic"
		site := "?"
		for _, l := range strings.Split(stack, "\n") {
			if strings.Contains(l, "metacontroller/pkg/") && !strings.Contains(l, "verif") && !strings.Contains(l, "zz_") && strings.Contains(l, "(") {
				site = strings.TrimSpace(l)
				if i := strings.Index(site, "("); i > 0 {
					site = site[:i]
				}
				site = strings.TrimPrefix(site, "metacontroller/pkg/")
				break
			}
		}
		f = append(f, mc.Finding{Key: "C13:panic:" + site, Msg: fmt.Sprintf("decorator %+v %s status=%d body=%s: PANIC %v\n%s", c.Cfg, c.What, c.Status, c.Body, p, stack)})
		return f
	}
	if e := fp.Verify(); e != nil {
		bad("cache-mutated", "%v", e)
	}
	writes := 0
	for _, r := range w.Sim.Log {
		if r.Kind == kit.Leaf && r.Mutating() {
			writes++
		}
	}
	switch {
	case err == nil:
		c13Outcome = "accepted"
	case strings.Contains(err.Error(), "hook failed"):
		c13Outcome = "rejected"
		if writes > 0 {
			bad("writes-after-rejection", "response rejected (%v) but %d attachment writes were sent", err, writes)
		}
	default:
		c13Outcome = "error-later"
	}
	if err != nil {
		// the retry of the same target with the same answer: no panic, rejected again, no writes
		w.DeliverAll()
		w.Sim.ResetLog()
		err2, p2, stack2 := w.syncKey(dkey(target))
		if p2 != nil {
			bad("panic-on-retry", "the retry of a sync whose answer was rejected (%v) panicked: %v\n%s", err, p2, stack2)
			return f
		}
		if strings.Contains(err.Error(), "hook failed") {
			if err2 == nil || !strings.Contains(err2.Error(), "hook failed") {
				bad("rejection-not-repeated", "first sync rejected the answer (%v), the retry with the same answer did not (%v)", err, err2)
			}
			for _, r := range w.Sim.Log {
				if r.Kind == kit.Leaf && r.Mutating() {
					bad("writes-after-rejection", "retry after a rejected answer led to attachment write %s", r)
				}
			}
		}
	}
	if c.Status != 200 {
		if writes > 0 {
			bad("writes-on-non-200", "HTTP %d but %d attachment writes", c.Status, writes)
		}
		if err == nil {
			bad("non-200-accepted", "HTTP %d treated as success", c.Status)
		}
	}
	return f
}

func c13Bodies(valid kit.M, pairs bool) (what []string, bodies []string) {
	paths := kit.Paths(valid)
	for _, p := range paths {
		for _, r := range kit.Replacements {
			m, ok := kit.Mutate(valid, p, r)
			if !ok {
				continue
			}
			b, err := json.Marshal(m)
			if err != nil {
				panic(err)
			}
			what = append(what, fmt.Sprintf("%s:=%s", p, strings.TrimPrefix(string(r), "\x00")))
			bodies = append(bodies, string(b))
		}
	}
	if pairs {
		for i, p1 := range paths {
			for _, p2 := range paths[i+1:] {
				for _, r1 := range kit.Replacements {
					m1, ok := kit.Mutate(valid, p1, r1)
					if !ok {
						continue
					}
					for _, r2 := range kit.Replacements {
						m2, ok := kit.Mutate(m1, p2, r2)
						if !ok {
							continue
						}
						b, _ := json.Marshal(m2)
						what = append(what, fmt.Sprintf("%s:=%s,%s:=%s", p1, strings.TrimPrefix(string(r1), "\x00"), p2, strings.TrimPrefix(string(r2), "\x00")))
						bodies = append(bodies, string(b))
					}
				}
			}
		}
	}
	return
}

var c13RawBodies = []string{"", " ", "not json", `{"attachments": [`, `{"status": {}, "status": {"a": 1}, "attachments": []}`, `[]`, `3`, `"x"`, `null`, `true`,
	`{"attachments": null}`, `{"attachments": {}}`, `{"unknownField": 1}`, "\xff\xfe", `{"labels":{}}trailing`, `{"labels": null, "annotations": null}`}

func TestVerifC13(t *testing.T) {
	r := mc.NewReport("C13", "decorator")
	defer r.Write()
	idx := 0
	run := func(c c13Case) {
		idx++
		if !mc.Mine(idx) {
			return
		}
		r.Case(kit.M{"cfg": fmt.Sprintf("decorator %+v", c.Cfg), "what": c.What, "status": c.Status, "body": c.Body}, fmt.Sprint(idx), func() []mc.Finding { return c13Run(c) })
		r.Outcome(c13Outcome)
		if idx%1009 == 0 {
			r.Sample(kit.M{"cfg": fmt.Sprintf("decorator %+v", c.Cfg), "what": c.What, "status": c.Status, "body": c.Body})
		}
	}
	for fin := 0; fin < 2; fin++ {
		for st := 0; st < 3; st++ {
			// st 2: loose mode, cluster-scoped target
			cfg := c13Cfg{Finalizing: fin == 1, Strict: st == 1, Cluster: st == 2}
			valid := c13Valid()
			what, bodies := c13Bodies(valid, mc.Thorough() && fin == 0 && st == 0)
			for i := range bodies {
				run(c13Case{cfg, what[i], 200, bodies[i]})
			}
			vb, _ := json.Marshal(valid)
			for _, code := range []int{204, 301, 400, 404, 429, 500} {
				run(c13Case{cfg, "valid-body", code, string(vb)})
			}
			for i, raw := range c13RawBodies {
				run(c13Case{cfg, fmt.Sprintf("raw#%d", i), 200, raw})
			}
		}
	}
}
