//go:build verif

package decorator

import (
	"fmt"
	"testing"

	"github.com/go-logr/logr"
	"github.com/go-logr/logr/funcr"

	"metacontroller/pkg/apis/metacontroller/v1alpha1"
	"metacontroller/pkg/internal/verif/kit"
	"metacontroller/pkg/internal/verif/mc"
	"metacontroller/pkg/internal/verif/sim"
	"metacontroller/pkg/internal/verif/vcache"
	"metacontroller/pkg/internal/verif/world"
	"metacontroller/pkg/logging"
)

// C17 (decorator part): the shared caches stay read-only across a decorator life cycle - decorate, attachments
// created and updated, target edited, target leaves the selector (finalize), target deleted (finalize) - with a
// 500 injected at every single request position; cache fingerprint (pointer + content) around every sync and
// "the hook was sent the target as the API server delivered it".

type c17dCfg struct {
	Customize bool
	Finalize  bool
	Method    string
	Verbose   bool
	Bare      bool // the finalize answer carries nothing but `finalized` (no labels, annotations, status)
}

func c17dBuild(cfg c17dCfg) *dworld {
	if cfg.Verbose {
		logging.Logger = funcr.New(func(prefix, args string) {}, funcr.Options{Verbosity: 10})
	} else {
		logging.Logger = logr.Logger{}
	}
	o := dcOpt{parents: []*sim.Kind{kit.Thing}, attachments: []*sim.Kind{kit.Leaf}, customize: cfg.Customize, finalize: cfg.Finalize,
		methods: map[string]v1alpha1.ChildUpdateMethod{"leafs": v1alpha1.ChildUpdateMethod(cfg.Method)}}
	w := newDWorld(o, false)
	p := kit.Obj(kit.Thing, "n1", "p")
	kit.Field(p, "puid", "metadata", "uid")
	kit.Field(p, "1", "spec", "v")
	kit.Field(p, kit.M{"deep": kit.M{"x": int64(1)}}, "spec", "nested")
	kit.Labels(p, "keep", "me")
	w.Sim.Seed(p)
	w.Sim.Seed(kit.Labels(kit.Obj(kit.Other, "n1", "rel"), "rel", "1"))
	h := world.JSON(func(req map[string]interface{}) interface{} {
		v := kit.Str(req, "object", "spec", "v")
		a := kit.Field(kit.Obj(kit.Leaf, "", "a"), v, "spec", "v")
		out := kit.M{"labels": kit.M{"decorated": v}, "annotations": kit.M{"note": v}, "status": kit.M{"seen": v}, "attachments": kit.L{a}}
		if fin, _ := req["finalizing"].(bool); fin {
			out["attachments"] = kit.L{}
			out["finalized"] = len(kit.Map(req, "attachments", "Leaf.v1")) == 0
			if cfg.Bare {
				return kit.M{"attachments": kit.L{}, "finalized": out["finalized"]}
			}
		}
		return out
	})
	w.Hooks.Handle("/dc/sync", h)
	w.Hooks.Handle("/dc/finalize", h)
	w.Hooks.Handle("/dc/customize", world.JSON(func(req map[string]interface{}) interface{} {
		return kit.M{"relatedResources": kit.L{kit.M{"apiVersion": "v1", "resource": "others", "labelSelector": kit.M{"matchLabels": kit.M{"rel": "1"}}}}}
	}))
	w.DeliverAll()
	return w
}

func c17dCached(w *dworld) string {
	if inf := w.Informer(kit.Thing); inf != nil {
		if o, ok, _ := inf.GetIndexer().GetByKey("n1/p"); ok {
			return kit.JSON(o)
		}
	}
	return ""
}

// (see the composite unit: faults by request identity, with the errors a loaded API server sheds requests with)
var c17FaultID, c17FaultKind string
var c17Idents []string

func c17Fault(kind string) *sim.Fault {
	switch kind {
	case "429":
		return &sim.Fault{Code: 429, Reason: "TooManyRequests"}
	case "server-timeout":
		return &sim.Fault{Code: 504, Reason: "Timeout"}
	case "403":
		return &sim.Fault{Code: 403, Reason: "Forbidden"}
	case "timeout":
		return &sim.Fault{Transport: true}
	}
	return &sim.Fault{Code: 500, Reason: "InternalError"}
}

func c17dHistory(w *dworld, steps []string, faultAt int, bad func(key, msg string)) int {
	count := 0
	seen := map[string]int{}
	w.Sim.Plan = func(q *sim.Request) *sim.Fault {
		count++
		seen[q.Ident()]++
		id := fmt.Sprintf("%s#%d", q.Ident(), seen[q.Ident()])
		if faultAt == -1 {
			c17Idents = append(c17Idents, id)
		}
		if faultAt == -2 && id == c17FaultID {
			return c17Fault(c17FaultKind)
		}
		if faultAt >= 0 && count-1 == faultAt {
			return &sim.Fault{Code: 500, Reason: "InternalError"}
		}
		return nil
	}
	defer func() { w.Sim.Plan = nil }()
	key := dkey(kit.Obj(kit.Thing, "n1", "p"))
	for _, st := range steps {
		switch st {
		case "edit":
			w.Sim.Edit(kit.Thing, "n1", "p", func(o map[string]interface{}) {
				kit.Field(o, "2", "spec", "v")
				kit.Field(o, kit.M{"deep": kit.M{"x": int64(2)}}, "spec", "nested")
			})
			w.DeliverAll()
		case "delete":
			w.Sim.ExternalDelete(kit.Thing, "n1", "p", "Background")
			w.DeliverAll()
		case "sync":
			cached := c17dCached(w)
			w.Hooks.Reset()
			w.Sim.ResetLog()
			fp := vcache.TakeFingerprint()
			_, p, stack := w.syncKey(key)
			if bad != nil {
				if p != nil {
					bad("panic", fmt.Sprintf("%v\n%s", p, stack))
					return count
				}
				if e := fp.Verify(); e != nil {
					bad("cache-mutated", e.Error())
				}
				if cached != "" {
					delivered := map[string]bool{cached: true}
					for _, rq := range w.Sim.Log {
						if rq.Kind == kit.Thing && rq.Name == "p" && rq.Post != nil {
							delivered[kit.JSON(rq.Post)] = true
						}
					}
					n, ok := 0, false
					for _, hc := range w.Hooks.Calls {
						if hc.Path == "/dc/customize" {
							continue
						}
						n++
						if delivered[kit.JSON(kit.Map(hc.Parsed, "object"))] {
							ok = true
						}
					}
					if n > 0 && !ok {
						bad("hook-does-not-reflect-cache", fmt.Sprintf("none of the %d hook requests carries the target as the API server delivered it", n))
					}
				}
			}
			w.DeliverAll()
			w.Sim.GC()
			w.DeliverAll()
		}
	}
	return count
}

func TestVerifC17(t *testing.T) {
	r := mc.NewReport("C17", "decorator-immutability")
	defer r.Write()
	r.DeclareClauses("fingerprint", "hook-reflects-cache")
	steps := []string{"sync", "sync", "edit", "sync", "sync", "delete", "sync", "sync"}
	idx := 0
	for _, cust := range []bool{false, true} {
		for _, fin := range []bool{false, true} {
			for _, method := range []string{"InPlace", "Recreate"} {
				for vb := 0; vb < 3; vb++ {
					verbose := vb == 1
					if vb == 2 && !fin {
						continue
					}
					cfg := c17dCfg{Customize: cust, Finalize: fin, Method: method, Verbose: verbose, Bare: vb == 2}
					c17Idents = nil
					total := c17dHistory(c17dBuild(cfg), steps, -1, nil)
					idents := map[string]bool{}
					for _, id := range c17Idents {
						idents[id] = true
					}
					for _, id := range mc.SortedKeys(idents) {
						for _, kind := range []string{"429", "server-timeout", "timeout", "403"} {
							if kind == "403" && !mc.Thorough() {
								continue
							}
							fid, fk := id, kind
							dev := kit.M{"cfg": fmt.Sprintf("%+v", cfg), "fault": fk, "at": fid}
							if !mc.MineKey(kit.JSON(dev)) {
								continue
							}
							r.Case(dev, kit.JSON(dev), func() []mc.Finding {
								var f []mc.Finding
								c17FaultID, c17FaultKind = fid, fk
								c17dHistory(c17dBuild(cfg), steps, -2, func(key, msg string) {
									f = append(f, mc.Finding{Key: "C17:decorator:" + key, Msg: fmt.Sprintf("%+v %s at %s: %s", cfg, fk, fid, msg)})
								})
								return f
							})
						}
					}
					for fault := -1; fault < total; fault++ {
						idx++
						if !mc.Mine(idx) {
							continue
						}
						flt := fault
						r.Case(kit.M{"cfg": fmt.Sprintf("%+v", cfg), "fault-at-request": flt}, fmt.Sprint(idx), func() []mc.Finding {
							var f []mc.Finding
							c17dHistory(c17dBuild(cfg), steps, flt, func(key, msg string) {
								f = append(f, mc.Finding{Key: "C17:decorator:" + key, Msg: fmt.Sprintf("%+v fault@%d: %s", cfg, flt, msg)})
							})
							return f
						})
						r.Clause("fingerprint")
						r.Clause("hook-reflects-cache")
					}
				}
			}
		}
	}
	logging.Logger = logr.Logger{}
}
