//go:build verif

package decorator

import (
	"fmt"
	"testing"

	"metacontroller/pkg/apis/metacontroller/v1alpha1"
	"metacontroller/pkg/internal/verif/kit"
	"metacontroller/pkg/internal/verif/mc"
	"metacontroller/pkg/internal/verif/sim"
	"metacontroller/pkg/internal/verif/vcache"
	"metacontroller/pkg/internal/verif/world"
)

// C02 (decorator part): attachments are written only when they are controlled by the target AND carry this
// decorator's marker; every request boundary of a rich decorator sync x one environment action on one
// attachment; plus two decorators sharing one target.

const c02Marker = "metacontroller.k8s.io/decorator-controller"

type c02World struct {
	*dworld
	observed map[string]string
}

func c02Build() *c02World {
	o := dcOpt{parents: []*sim.Kind{kit.Thing}, attachments: []*sim.Kind{kit.Leaf, kit.Widget},
		methods: map[string]v1alpha1.ChildUpdateMethod{"leafs": v1alpha1.ChildUpdateInPlace, "widgets": v1alpha1.ChildUpdateRecreate}}
	w := newDWorld(o, false)
	x := &c02World{dworld: w}
	p := kit.Obj(kit.Thing, "n1", "p")
	kit.Field(p, "puid", "metadata", "uid")
	w.Sim.Seed(p)
	att := func(k *sim.Kind, ns, name, v string) kit.M { return kit.Field(kit.Obj(k, ns, name), v, "spec", "v") }
	boot := true
	w.Hooks.Handle("/dc/sync", world.JSON(func(req map[string]interface{}) interface{} {
		if boot {
			return kit.M{"attachments": kit.L{att(kit.Leaf, "", "b", "1"), att(kit.Widget, "", "c", "1"), att(kit.Leaf, "", "d", "1")}}
		}
		return kit.M{"attachments": kit.L{kit.Owners(att(kit.Leaf, "", "a", "2"), kit.OwnerRef(kit.Thing, "p", "puid", false)), att(kit.Leaf, "", "b", "2"), att(kit.Widget, "", "c", "2"), att(kit.Leaf, "", "f", "2"), att(kit.Leaf, "", "h", "2")}}
	}))
	w.DeliverAll()
	key := dkey(p)
	for i := 0; i < 3; i++ {
		if err, pn, _ := w.syncKey(key); err != nil || pn != nil {
			panic(fmt.Sprintf("c02 decorator bootstrap: %v %v", err, pn))
		}
		w.DeliverAll()
	}
	boot = false
	ours := kit.OwnerRef(kit.Thing, "p", "puid", true)
	// bystanders at desired names and elsewhere
	w.Sim.Seed(kit.Ann(kit.Owners(att(kit.Leaf, "n1", "f", "0"), ours), c02Marker, "other-dc")) // another decorator's attachment for the same target
	w.Sim.Seed(att(kit.Leaf, "n1", "h", "0"))                                                   // unrelated object at a desired name
	w.Sim.Seed(kit.Owners(att(kit.Leaf, "n1", "nomark", "0"), ours))                            // owned by the target, no marker
	w.Sim.Seed(kit.Ann(kit.Owners(att(kit.Leaf, "n1", "foreign", "0"), kit.OwnerRef(kit.Thing, "q", "quid", true)), c02Marker, "dc"))
	q := kit.Obj(kit.Thing, "n1", "q")
	kit.Field(q, "quid", "metadata", "uid")
	w.Sim.Seed(q)
	// shared attachments: the target is a plain (non-controller) owner, the controller is someone else / nobody
	w.Sim.Seed(kit.Ann(kit.Owners(att(kit.Leaf, "n1", "shared", "0"), kit.OwnerRef(kit.Thing, "q", "quid", true), kit.OwnerRef(kit.Thing, "p", "puid", false)), c02Marker, "dc"))
	w.Sim.Seed(kit.Ann(kit.Owners(att(kit.Leaf, "n1", "plainowned", "0"), kit.OwnerRef(kit.Thing, "p", "puid", false)), c02Marker, "dc"))
	for _, n := range []string{"a", "b", "d"} {
		w.Sim.Seed(kit.Ann(att(kit.Leaf, "n2", n, "0"), c02Marker, "dc"))
	}
	w.DeliverAll()
	return x
}

func (x *c02World) snapshotObserved() {
	x.observed = map[string]string{}
	for _, k := range []*sim.Kind{kit.Leaf, kit.Widget} {
		if inf := x.Informer(k); inf != nil {
			for _, o := range inf.GetIndexer().List() {
				m := kit.M{}
				_ = jsonUnmarshal([]byte(kit.JSON(o)), &m)
				x.observed[k.Resource+"/"+kit.NS(m)+"/"+kit.Name(m)] = kit.UID(m)
			}
		}
	}
}

func (x *c02World) judge(log []*sim.Request, dcName string, bad func(key, format string, a ...interface{})) {
	for _, r := range log {
		if !r.Mutating() || !r.Applied {
			continue
		}
		switch {
		case r.Kind == kit.Thing:
			if kit.UID(r.Pre) != "puid" {
				bad("wrote-other-target", "%s", r)
			}
		case r.NS != "n1":
			bad("wrote-other-namespace", "%s", r)
		case r.Pre == nil:
			if kit.ControllerUID(r.Post) != "puid" || kit.Str(r.Post, "metadata", "annotations", c02Marker) != dcName {
				bad("created-without-controller-ref-or-marker", "%s: controller %q marker %q", r, kit.ControllerUID(r.Post), kit.Str(r.Post, "metadata", "annotations", c02Marker))
			}
		default:
			if kit.ControllerUID(r.Pre) == "puid" && kit.Str(r.Pre, "metadata", "annotations", c02Marker) == dcName {
				if r.Verb == "delete" {
					if pu := kit.Str(r.Body, "preconditions", "uid"); pu == "" {
						bad("delete-without-uid-precondition", "%s", r)
					} else if obs, ok := x.observed[r.Kind.Resource+"/"+r.NS+"/"+r.Name]; ok && pu != obs {
						bad("delete-precondition-not-observed-uid", "%s: precondition %s, observed %s", r, pu, obs)
					}
					if kit.Str(r.Body, "propagationPolicy") != "Background" {
						bad("delete-propagation", "%s", r)
					}
				}
				continue
			}
			bad("wrote-attachment-of-someone-else:"+r.Verb, "%s modified an object with controller %q and marker %q on behalf of decorator %s", r, kit.ControllerUID(r.Pre), kit.Str(r.Pre, "metadata", "annotations", c02Marker), dcName)
		}
	}
}

type c02Dev struct {
	Boundary int
	Action   string
	Target   string
	Before   string // the environment acts just before the n-th request with this identity
}

func (x *c02World) act(action string, k *sim.Kind, name string, locked bool) {
	edit, remove, seed, get := x.Sim.Edit, x.Sim.Remove, func(o map[string]interface{}) { x.Sim.Seed(o) }, x.Sim.Get
	if locked {
		edit, remove, seed, get = x.Sim.EditLocked, x.Sim.RemoveLocked, x.Sim.SeedLocked, x.Sim.GetLocked
	}
	switch action {
	case "delete":
		remove(k, "n1", name)
	case "recreate":
		if get(k, "n1", name) == nil {
			return
		}
		remove(k, "n1", name)
		seed(kit.Field(kit.Obj(k, "n1", name), "someone-else", "spec", "v"))
	case "foreign-owner":
		edit(k, "n1", name, func(o map[string]interface{}) { kit.Owners(o, kit.OwnerRef(kit.Thing, "q", "quid", true)) })
	case "clear-owners":
		edit(k, "n1", name, func(o map[string]interface{}) { delete(o["metadata"].(map[string]interface{}), "ownerReferences") })
	case "other-marker":
		edit(k, "n1", name, func(o map[string]interface{}) { kit.Ann(o, c02Marker, "other-dc") })
	}
}

var c02Outcome string

func TestVerifC02(t *testing.T) {
	r := mc.NewReport("C02", "decorator")
	defer r.Write()
	base := c02Build()
	pkey := dkey(kit.Obj(kit.Thing, "n1", "p"))
	base.Sim.ResetLog()
	base.syncKey(pkey)
	nreq := len(base.Sim.Log)
	targets := []struct {
		k    *sim.Kind
		name string
	}{{kit.Leaf, "a"}, {kit.Leaf, "b"}, {kit.Widget, "c"}, {kit.Leaf, "d"}, {kit.Leaf, "f"}, {kit.Leaf, "h"}}
	idx := 0
	run := func(dev c02Dev, plan func(x *c02World, n *int) func(q *sim.Request) *sim.Fault, pre func(x *c02World)) {
		idx++
		if dev.Before != "" {
			if !mc.MineKey(fmt.Sprintf("%+v", dev)) {
				return
			}
		} else if !mc.Mine(idx) {
			return
		}
		r.Case(dev, fmt.Sprint(idx), func() []mc.Finding {
			var f []mc.Finding
			bad := func(key, format string, a ...interface{}) {
				if len(key) > 5 && key[:5] == "wrote" {
					key += ":env=" + dev.Action
				}
				f = append(f, mc.Finding{Key: "C02:decorator:" + key, Msg: fmt.Sprintf("%+v: ", dev) + fmt.Sprintf(format, a...)})
			}
			x := c02Build()
			x.snapshotObserved()
			if pre != nil {
				pre(x)
			}
			n := 0
			if plan != nil {
				x.Sim.Plan = plan(x, &n)
			}
			x.Sim.ResetLog()
			fp := vcache.TakeFingerprint()
			_, p, stack := x.syncKey(pkey)
			x.Sim.Plan = nil
			if p != nil {
				bad("panic", "%v\n%s", p, stack)
				return f
			}
			if e := fp.Verify(); e != nil {
				bad("cache-mutated", "%v", e)
			}
			x.judge(x.Sim.Log, "dc", bad)
			x.Sim.ResetLog()
			x.snapshotObserved()
			if _, p, stack := x.syncKey(pkey); p != nil {
				bad("panic", "follow-up sync: %v\n%s", p, stack)
			}
			x.judge(x.Sim.Log, "dc", bad)
			c02Outcome = fmt.Sprintf("findings=%d", len(f))
			return f
		})
		r.Outcome(c02Outcome)
	}
	run(c02Dev{Boundary: -1, Action: "none"}, nil, nil)
	for b := 0; b <= nreq; b++ {
		for _, action := range []string{"delete", "recreate", "foreign-owner", "clear-owners", "other-marker"} {
			for _, tg := range targets {
				bb, act, tgt := b, action, tg
				dev := c02Dev{Boundary: bb, Action: act, Target: tgt.k.Resource + "/" + tgt.name}
				if bb == 0 {
					run(dev, nil, func(x *c02World) { x.act(act, tgt.k, tgt.name, false) })
					continue
				}
				run(dev, func(x *c02World, n *int) func(q *sim.Request) *sim.Fault {
					return func(q *sim.Request) *sim.Fault {
						if *n == bb {
							x.act(act, tgt.k, tgt.name, true)
							if q.Name == tgt.name && q.Kind == tgt.k {
								q.Pre = x.Sim.GetLocked(tgt.k, "n1", tgt.name)
							}
						}
						*n++
						return nil
					}
				}, nil)
			}
		}
	}
	// ... and every action on the target of a request just before that very request, by request identity
	seenBase := map[string]int{}
	byID := map[string]*sim.Request{}
	for _, q := range base.Sim.Log {
		seenBase[q.Ident()]++
		byID[fmt.Sprintf("%s#%d", q.Ident(), seenBase[q.Ident()])] = q
	}
	for _, id := range mc.SortedKeys(byID) {
		q := byID[id]
		for _, tg := range targets {
			if tg.k != q.Kind || tg.name != q.Name || q.NS != "n1" {
				continue
			}
			for _, action := range []string{"delete", "recreate", "foreign-owner", "clear-owners", "other-marker"} {
				ident, act, tgt := id, action, tg
				run(c02Dev{Boundary: -2, Action: act, Target: tgt.k.Resource + "/" + tgt.name, Before: ident}, func(x *c02World, n *int) func(q *sim.Request) *sim.Fault {
					seen := map[string]int{}
					return func(q *sim.Request) *sim.Fault {
						seen[q.Ident()]++
						if fmt.Sprintf("%s#%d", q.Ident(), seen[q.Ident()]) == ident {
							x.act(act, tgt.k, tgt.name, true)
							q.Pre = x.Sim.GetLocked(tgt.k, "n1", tgt.name)
						}
						return nil
					}
				}, nil)
			}
		}
	}
	r.Infof("decorator: %d requests in the base sync, %d boundaries x 5 actions x %d targets, plus request identity x action on its target", nreq, nreq+1, len(targets))
}
