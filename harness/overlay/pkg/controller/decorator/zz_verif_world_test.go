//go:build verif

package decorator

import (
	"time"

	"github.com/go-logr/logr"
	metav1 "k8s.io/apimachinery/pkg/apis/meta/v1"
	k8sjson "k8s.io/apimachinery/pkg/util/json"

	"metacontroller/pkg/apis/metacontroller/v1alpha1"
	"metacontroller/pkg/internal/verif/kit"
	"metacontroller/pkg/internal/verif/mc"
	"metacontroller/pkg/internal/verif/sim"
	"metacontroller/pkg/internal/verif/world"
)

type dworld struct {
	*world.Base
	DC *v1alpha1.DecoratorController
	C  *decoratorController
	Q  *world.RecQueue
}

type dcOpt struct {
	name         string
	parents      []*sim.Kind
	attachments  []*sim.Kind
	methods      map[string]v1alpha1.ChildUpdateMethod // by resource
	labelSel     *metav1.LabelSelector
	annSel       *v1alpha1.AnnotationSelector
	annSelFor    map[string]*v1alpha1.AnnotationSelector // per parent resource: overrides annSel for that rule only
	ignoreFor    map[string]bool                         // per parent resource: overrides ignoreStatus for that rule only
	finalize     bool
	customize    bool
	ignoreStatus bool
	strict       bool
	resyncSec    *int32
}

func (o dcOpt) build() *v1alpha1.DecoratorController {
	if o.name == "" {
		o.name = "dc"
	}
	hook := func(path string) *v1alpha1.Hook {
		wh := &v1alpha1.Webhook{URL: world.URL(path), Timeout: &metav1.Duration{Duration: time.Hour}}
		if o.strict {
			m := v1alpha1.ResponseUnmarshallModeStrict
			wh.ResponseUnmarshallMode = &m
		}
		return &v1alpha1.Hook{Webhook: wh}
	}
	dc := &v1alpha1.DecoratorController{
		TypeMeta:   metav1.TypeMeta{APIVersion: "metacontroller.k8s.io/v1alpha1", Kind: "DecoratorController"},
		ObjectMeta: metav1.ObjectMeta{Name: o.name},
		Spec: v1alpha1.DecoratorControllerSpec{
			Hooks:               &v1alpha1.DecoratorControllerHooks{Sync: hook("/" + o.name + "/sync")},
			ResyncPeriodSeconds: o.resyncSec,
		},
	}
	if o.finalize {
		dc.Spec.Hooks.Finalize = hook("/" + o.name + "/finalize")
	}
	if o.customize {
		dc.Spec.Hooks.Customize = hook("/" + o.name + "/customize")
	}
	for _, pk := range o.parents {
		rule := v1alpha1.DecoratorControllerResourceRule{
			ResourceRule:       v1alpha1.ResourceRule{APIVersion: pk.APIVersion(), Resource: pk.Resource},
			LabelSelector:      o.labelSel,
			AnnotationSelector: o.annSel,
		}
		if as, ok := o.annSelFor[pk.Resource]; ok {
			rule.AnnotationSelector = as
		}
		ign := o.ignoreStatus
		if v, ok := o.ignoreFor[pk.Resource]; ok {
			ign = v
		}
		if ign {
			t := true
			rule.IgnoreStatusChanges = &t
		}
		dc.Spec.Resources = append(dc.Spec.Resources, rule)
	}
	for _, ck := range o.attachments {
		rule := v1alpha1.DecoratorControllerAttachmentRule{ResourceRule: v1alpha1.ResourceRule{APIVersion: ck.APIVersion(), Resource: ck.Resource}}
		if m, ok := o.methods[ck.Resource]; ok {
			rule.UpdateStrategy = &v1alpha1.DecoratorControllerAttachmentUpdateStrategy{Method: m}
		}
		dc.Spec.Attachments = append(dc.Spec.Attachments, rule)
	}
	return dc
}

func newDWorld(o dcOpt, start bool) *dworld {
	b := world.NewBase(5*time.Minute, kit.Kinds...)
	w, err := attachDecorator(b, o, start)
	if err != nil {
		panic(err)
	}
	return w
}

func attachDecorator(b *world.Base, o dcOpt, start bool) (*dworld, error) {
	dc := o.build()
	c, err := newDecoratorController(b.Resources, b.DynClient, b.Factory, b.Rec, dc, 0, logr.Discard())
	if err != nil {
		return nil, err
	}
	w := &dworld{Base: b, DC: dc, C: c, Q: world.NewRecQueue()}
	orig := c.queue
	c.queue = w.Q
	orig.ShutDown()
	if start {
		c.Start()
		<-c.doneCh
	}
	return w, nil
}

func (w *dworld) syncKey(key string) (err error, panicked interface{}, stack string) {
	panicked, stack = mc.Recover(func() { err = w.C.sync(key) })
	return
}

// dkey is the decorator's queue key for an object.
func dkey(o kit.M) string {
	return kit.Str(o, "apiVersion") + ":" + kit.Str(o, "kind") + ":" + kit.NS(o) + ":" + kit.Name(o)
}

func jsonUnmarshal(b []byte, v *kit.M) error {
	m := map[string]interface{}{}
	err := k8sjson.Unmarshal(b, &m)
	*v = m
	return err
}
