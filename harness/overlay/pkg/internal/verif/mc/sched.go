package mc

import (
	"bytes"
	"fmt"
	"runtime"
	"strconv"
	"sync"
	"time"
)

// E4: cooperative scheduler + stateless DFS over schedules with iterative preemption bounding
// (DESIGN.md §2.5). Threads are real goroutines running real code; they hand control back at every
// visible operation (Yield). Exactly one thread runs at a time, so an execution is a deterministic
// function of its choice list.

func goid() int64 {
	var buf [64]byte
	n := runtime.Stack(buf[:], false)
	// "goroutine 123 [running]:..."
	b := buf[:n]
	b = b[len("goroutine "):]
	i := bytes.IndexByte(b, ' ')
	id, _ := strconv.ParseInt(string(b[:i]), 10, 64)
	return id
}

type Sched struct {
	mu      sync.Mutex
	byGoid  map[int64]int
	resume  []chan struct{}
	events  chan schedEvent
	Labels  []string // label of the visible operation each thread is parked at (for traces)
	current int
}

type schedEvent struct {
	thread int
	done   bool
	label  string
	panicV interface{}
	cond   func() bool // the thread may only be resumed when cond() holds (blocking operations)
}

// Trace is one complete execution.
type Trace struct {
	Choices  []int    // thread chosen at every decision point
	Enabled  [][]int  // enabled threads at every decision point (canonical order)
	Ops      []string // label of the operation that was released at every decision point
	Deadlock bool     // no enabled thread although some are not finished (cannot happen with this scheduler unless a thread blocks outside Yield)
	Panics   []string // panics of thread bodies
	Hung     bool     // a released thread neither yielded nor finished within the watchdog (blocked outside the scheduler)
	Diverged bool     // a replayed prefix was not reproducible
}

func NewSched() *Sched { return &Sched{byGoid: map[int64]int{}} }

// Yield parks the calling thread until the scheduler releases it. Calls from goroutines that are not
// scheduler threads (harness set-up) return at once.
func (s *Sched) Yield(label string) {
	s.mu.Lock()
	i, ok := s.byGoid[goid()]
	s.mu.Unlock()
	if !ok {
		return
	}
	s.events <- schedEvent{thread: i, label: label}
	<-s.resume[i]
}

// IsThread reports whether the calling goroutine is one of the scheduler's threads.
func (s *Sched) IsThread() bool {
	s.mu.Lock()
	_, ok := s.byGoid[goid()]
	s.mu.Unlock()
	return ok
}

// YieldUntil parks the calling thread at a blocking operation: it is enabled only while cond() holds.
func (s *Sched) YieldUntil(label string, cond func() bool) {
	s.mu.Lock()
	i, ok := s.byGoid[goid()]
	s.mu.Unlock()
	if !ok {
		return
	}
	s.events <- schedEvent{thread: i, label: label, cond: cond}
	<-s.resume[i]
}

// Run executes the thread bodies under the given choice prefix; after the prefix the default policy is
// "keep running the current thread if it is enabled, else the lowest enabled id".
func (s *Sched) Run(fns []func(), prefix []int) *Trace {
	n := len(fns)
	s.mu.Lock()
	s.byGoid = map[int64]int{}
	s.resume = make([]chan struct{}, n)
	s.events = make(chan schedEvent)
	s.Labels = make([]string, n)
	s.mu.Unlock()
	finished := make([]bool, n)
	conds := make([]func() bool, n)
	for i := range fns {
		s.resume[i] = make(chan struct{})
		i := i
		go func() {
			s.mu.Lock()
			s.byGoid[goid()] = i
			s.mu.Unlock()
			<-s.resume[i] // every thread starts parked
			var pv interface{}
			func() {
				defer func() { pv = recover() }()
				fns[i]()
			}()
			s.events <- schedEvent{thread: i, done: true, panicV: pv}
		}()
		s.Labels[i] = "start"
	}
	t := &Trace{}
	cur := -1
	for step := 0; ; step++ {
		var enabled []int
		ready := func(i int) bool { return !finished[i] && (conds[i] == nil || conds[i]()) }
		if cur >= 0 && ready(cur) {
			enabled = append(enabled, cur)
		}
		unfinished := 0
		for i := 0; i < n; i++ {
			if !finished[i] {
				unfinished++
			}
			if ready(i) && i != cur {
				enabled = append(enabled, i)
			}
		}
		if len(enabled) == 0 {
			if unfinished > 0 {
				t.Deadlock = true // every unfinished thread waits for something nobody can provide
			}
			break
		}
		choice := enabled[0]
		if step < len(prefix) {
			choice = prefix[step]
			ok := false
			for _, e := range enabled {
				if e == choice {
					ok = true
				}
			}
			if !ok {
				// the execution under replay did not reproduce the recorded one: nondeterminism the harness
				// does not own (e.g. map iteration order changing the request sequence). Not a verdict: the
				// branch is abandoned and the exploration is reported as not exhaustive.
				t.Diverged = true
				choice = enabled[0]
			}
		}
		t.Choices = append(t.Choices, choice)
		t.Enabled = append(t.Enabled, enabled)
		t.Ops = append(t.Ops, fmt.Sprintf("T%d:%s", choice, s.Labels[choice]))
		cur = choice
		s.resume[choice] <- struct{}{}
		select {
		case ev := <-s.events:
			if ev.done {
				finished[ev.thread] = true
				if ev.panicV != nil {
					t.Panics = append(t.Panics, fmt.Sprintf("thread %d: %v", ev.thread, ev.panicV))
				}
			} else {
				s.Labels[ev.thread] = ev.label
				conds[ev.thread] = ev.cond
			}
		case <-time.After(60 * time.Second):
			// not an oracle: a thread blocked outside the scheduler; reported as hung, exploration of this branch ends
			t.Hung = true
			return t
		}
	}
	return t
}

func preemptions(t *Trace, upto int, alt int) int {
	p := 0
	for i := 0; i <= upto && i < len(t.Choices); i++ {
		ch := t.Choices[i]
		if i == upto {
			ch = alt
		}
		// a preemption = switching away from a thread that is still enabled (it is first in Enabled when still enabled)
		if i > 0 {
			prev := t.Choices[i-1]
			if ch != prev {
				for _, e := range t.Enabled[i] {
					if e == prev {
						p++
						break
					}
				}
			}
		}
	}
	return p
}

// ExploreSchedules enumerates all schedules with at most `bound` preemptions (bound < 0: unbounded).
// mk builds a fresh closed system wired to s and returns the thread bodies plus a judge that is called
// after the execution finished.
func ExploreSchedules(r *Report, bound int, maxRuns int, mk func(s *Sched) (threads []func(), judge func(t *Trace) []Finding)) {
	dl := Deadline()
	runs := 0
	var explore func(prefix []int)
	capped := false
	explore = func(prefix []int) {
		if capped {
			return
		}
		if (maxRuns > 0 && runs >= maxRuns) || time.Now().After(dl) {
			capped = true
			r.Capped(fmt.Sprintf("schedule cap after %d executions", runs))
			return
		}
		s := NewSched()
		fns, judge := mk(s)
		t := s.Run(fns, prefix)
		runs++
		r.mu.Lock()
		r.Evaluations++
		r.Distinct++
		r.States++
		r.Transitions += len(t.Choices)
		if len(r.Samples) < 3 {
			r.Samples = append(r.Samples, map[string]interface{}{"schedule": t.Choices, "ops": t.Ops})
		}
		r.mu.Unlock()
		desc := map[string]interface{}{"schedule": t.Choices, "ops": t.Ops}
		if t.Hung {
			r.Violate("HUNG", "a thread blocked outside the scheduler (deadlock or lost wake-up)", desc)
			return
		}
		if t.Deadlock {
			r.Violate("DEADLOCK", "no enabled thread although some have not finished", desc)
			return
		}
		if t.Diverged {
			r.Note("replay-diverged")
			r.Capped("a replayed schedule prefix was not reproducible (unowned nondeterminism); branch abandoned")
			return
		}
		for _, p := range t.Panics {
			r.Violate("panic-in-thread", p, desc)
		}
		for _, f := range judge(t) {
			r.Violate(f.Key, f.Msg, desc)
		}
		for i := len(prefix); i < len(t.Choices); i++ {
			for _, alt := range t.Enabled[i] {
				if alt == t.Choices[i] {
					continue
				}
				if bound >= 0 && preemptions(t, i, alt) > bound {
					continue
				}
				np := append(append([]int{}, t.Choices[:i]...), alt)
				explore(np)
			}
		}
	}
	explore(nil)
	if !capped && r.Bound == "" {
		if bound < 0 {
			r.Bound = fmt.Sprintf("all %d schedules (no preemption bound)", runs)
		} else {
			r.Bound = fmt.Sprintf("all %d schedules with at most %d preemptions", runs, bound)
		}
	}
}

// Goid returns the id of the calling goroutine (actor attribution in concurrent checks).
func Goid() int64 { return goid() }
