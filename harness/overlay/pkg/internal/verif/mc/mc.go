// Package mc holds the small explorer engines and the per-shard reporting shared by all checks
// (DESIGN.md §2.5, §2.8): odometer enumeration with sharding (E1), explicit-state BFS (E2), clause and
// outcome counting, violation records with replay data.
package mc

import (
	"crypto/sha1"
	"encoding/hex"
	"encoding/json"
	"fmt"
	"hash/fnv"
	"os"
	"runtime/debug"
	"sort"
	"strconv"
	"strings"
	"sync"
	"time"
)

// ---------------------------------------------------------------------------------------------
// Environment.

func Tier() string {
	if t := os.Getenv("VERIF_TIER"); t != "" {
		return t
	}
	return "quick"
}

func Thorough() bool { return Tier() == "thorough" }

func Seed() int64 {
	n, _ := strconv.ParseInt(os.Getenv("VERIF_SEED"), 10, 64)
	return n
}

// Shard returns (index, count) from VERIF_SHARD="i/n" (default 0/1).
func Shard() (int, int) {
	s := os.Getenv("VERIF_SHARD")
	if s == "" {
		return 0, 1
	}
	p := strings.SplitN(s, "/", 2)
	i, _ := strconv.Atoi(p[0])
	n, _ := strconv.Atoi(p[1])
	if n <= 0 {
		n = 1
	}
	return i, n
}

// Mine reports whether case number idx belongs to this shard.
func Mine(idx int) bool {
	i, n := Shard()
	return idx%n == i
}

// MineKey shards by the identity of a case instead of by its position in the enumeration: use it wherever the
// enumeration ORDER depends on the code under test (e.g. the order of the requests of a recorded sync, which
// follows Go map iteration), so that every case is owned by exactly one shard whatever order each shard process
// happens to enumerate in.
func MineKey(key string) bool {
	i, n := Shard()
	h := fnv.New32a()
	_, _ = h.Write([]byte(key))
	return int(h.Sum32()%uint32(n)) == i
}

// Deadline returns the internal time budget of this run (VERIF_BUDGET_S, default generous). A run that
// exceeds it stops exploring, reports exhaustive=false and still exits 0.
func Deadline() time.Time {
	s, _ := strconv.Atoi(os.Getenv("VERIF_BUDGET_S"))
	if s <= 0 {
		s = 3600
	}
	return startTime.Add(time.Duration(s) * time.Second)
}

var startTime = time.Now()

// ---------------------------------------------------------------------------------------------
// Report.

type Violation struct {
	Property string      `json:"property"`
	Key      string      `json:"key"` // stable signature used to match known findings
	Msg      string      `json:"msg"`
	Replay   interface{} `json:"replay,omitempty"`
}

type Report struct {
	mu sync.Mutex

	Property    string         `json:"property"`
	Part        string         `json:"part,omitempty"`
	Shard       string         `json:"shard"`
	Evaluations int            `json:"evaluations"`
	States      int            `json:"states"`
	Transitions int            `json:"transitions"`
	Distinct    int            `json:"distinct_nontrivial"`
	Outcomes    map[string]int `json:"outcomes"`
	Clauses     map[string]int `json:"clauses"`
	Exhaustive  bool           `json:"exhaustive"`
	Bound       string         `json:"bound_completed"`
	Samples     []interface{}  `json:"samples"`
	Violations  []Violation    `json:"violations"`
	ViolCount   int            `json:"violation_count"`
	Notes       map[string]int `json:"notes,omitempty"`
	Info        []string       `json:"info,omitempty"`
	WallS       float64        `json:"wall_s"`

	distinct map[string]struct{}
	vkeys    map[string]int
}

func NewReport(property, part string) *Report {
	i, n := Shard()
	return &Report{Property: property, Part: part, Shard: fmt.Sprintf("%d/%d", i, n), Outcomes: map[string]int{}, Clauses: map[string]int{},
		Notes: map[string]int{}, distinct: map[string]struct{}{}, vkeys: map[string]int{}, Exhaustive: true}
}

// Eval counts one evaluated case; nontrivialKey != "" also counts it as a distinct non-trivial case.
func (r *Report) Eval(nontrivialKey string) {
	r.mu.Lock()
	defer r.mu.Unlock()
	r.Evaluations++
	if nontrivialKey != "" {
		if _, ok := r.distinct[nontrivialKey]; !ok {
			r.distinct[nontrivialKey] = struct{}{}
			r.Distinct++
		}
	}
}

// EvalDistinct counts one evaluated case of an enumeration whose cases are distinct by construction
// (odometer over a product): no key is stored, so 10^8 cases cost no memory.
func (r *Report) EvalDistinct(nontrivial bool) {
	r.mu.Lock()
	r.Evaluations++
	if nontrivial {
		r.Distinct++
	}
	r.mu.Unlock()
}

func (r *Report) Clause(name string) {
	r.mu.Lock()
	r.Clauses[name]++
	r.mu.Unlock()
}

// DeclareClauses registers clause names so that a clause never exercised shows up with count 0.
func (r *Report) DeclareClauses(names ...string) {
	r.mu.Lock()
	for _, n := range names {
		if _, ok := r.Clauses[n]; !ok {
			r.Clauses[n] = 0
		}
	}
	r.mu.Unlock()
}

func (r *Report) Outcome(name string) {
	r.mu.Lock()
	r.Outcomes[name]++
	r.mu.Unlock()
}

func (r *Report) Note(name string) {
	r.mu.Lock()
	r.Notes[name]++
	r.mu.Unlock()
}

func (r *Report) Infof(f string, a ...interface{}) {
	r.mu.Lock()
	if len(r.Info) < 40 {
		r.Info = append(r.Info, fmt.Sprintf(f, a...))
	}
	r.mu.Unlock()
}

func (r *Report) Sample(s interface{}) {
	r.mu.Lock()
	if len(r.Samples) < 4 {
		r.Samples = append(r.Samples, s)
	}
	r.mu.Unlock()
}

// Violate records a violation. Per key only the first few replays are kept, all are counted.
func (r *Report) Violate(key, msg string, replay interface{}) {
	r.mu.Lock()
	defer r.mu.Unlock()
	r.ViolCount++
	r.vkeys[key]++
	if r.vkeys[key] <= 2 && len(r.Violations) < 200 {
		r.Violations = append(r.Violations, Violation{Property: r.Property, Key: key, Msg: msg, Replay: replay})
	}
}

func (r *Report) Capped(bound string) {
	r.mu.Lock()
	r.Exhaustive = false
	r.Bound = bound
	r.mu.Unlock()
}

// Write stores the shard report at VERIF_OUT (or prints a summary when unset).
func (r *Report) Write() {
	r.mu.Lock()
	defer r.mu.Unlock()
	r.WallS = time.Since(startTime).Seconds()
	b, err := json.MarshalIndent(r, "", " ")
	if err != nil {
		panic(err)
	}
	if out := os.Getenv("VERIF_OUT"); out != "" {
		suffix := ""
		if r.Part != "" {
			suffix = "." + r.Part
		}
		if err := os.WriteFile(out+suffix+".json", b, 0o644); err != nil {
			panic(err)
		}
		return
	}
	fmt.Printf("%s %s: evals=%d distinct=%d states=%d transitions=%d violations=%d exhaustive=%v outcomes=%v clauses=%v notes=%v\n",
		r.Property, r.Part, r.Evaluations, r.Distinct, r.States, r.Transitions, r.ViolCount, r.Exhaustive, r.Outcomes, r.Clauses, r.Notes)
	for i, v := range r.Violations {
		if i > 8 {
			break
		}
		fmt.Printf("  VIOL %s: %s\n", v.Key, v.Msg)
	}
	for _, s := range r.Info {
		fmt.Printf("  INFO %s\n", s)
	}
}

// Finding is one oracle failure of one case.
type Finding struct {
	Key string // stable signature (no case-specific noise): used for known-finding matching
	Msg string
}

// Case evaluates one case. run must build everything it needs from scratch (fresh world) so that it can
// be repeated: a case that produces findings is re-executed twice more and only believed when all three
// executions agree; otherwise it is reported under a FLAKY key, which makes the driver declare the check
// broken instead of raising an alarm (DESIGN §2.5).
func (r *Report) Case(desc interface{}, nontrivialKey string, run func() []Finding) {
	r.Eval(nontrivialKey)
	// Crash protocol (DESIGN §6a): a panic in a goroutine spawned by the code under test, or a runtime
	// fatal error, kills this process. The case being run is published first; the driver classifies the
	// crash, records it for this case and restarts the shard, which then skips the case and reports the
	// recorded violation instead.
	ck := Hash(CanonJSON(desc))
	if c, ok := crashed()[ck]; ok {
		r.Violate(c.Key, c.Msg, desc)
		return
	}
	publishCurrent(ck, desc)
	f := run()
	if len(f) == 0 {
		return
	}
	sig := func(fs []Finding) string {
		var k []string
		for _, x := range fs {
			k = append(k, x.Key)
		}
		sort.Strings(k)
		return strings.Join(k, "|")
	}
	// Re-execute twice more. The harnesses are deterministic (one goroutine, fresh world per case), so a
	// differing verdict means the code under test itself is nondeterministic (map iteration order, pools,
	// goroutines): a finding seen in any execution is reported, and the disagreement is noted in the evidence.
	s1 := sig(f)
	all := map[string]Finding{}
	for _, x := range f {
		all[x.Key] = x
	}
	differ := false
	for i := 0; i < 2; i++ {
		f2 := run()
		if sig(f2) != s1 {
			differ = true
		}
		for _, x := range f2 {
			if _, ok := all[x.Key]; !ok {
				all[x.Key] = x
			}
		}
	}
	if differ {
		r.Note("cases-with-nondeterministic-verdict")
	}
	for _, k := range SortedKeys(all) {
		x := all[k]
		if differ {
			x.Msg += " [verdict differed between 3 executions of this case: the code under test is nondeterministic here]"
		}
		r.Violate(x.Key, x.Msg, desc)
	}
}

// Guard implements the crash protocol for checks that do not go through Case: it returns false when this
// case aborted the process in an earlier attempt of the shard (the recorded violation is reported), and
// otherwise publishes the case as the one being executed.
func (r *Report) Guard(desc interface{}) bool {
	ck := Hash(CanonJSON(desc))
	if c, ok := crashed()[ck]; ok {
		r.Violate(c.Key, c.Msg, desc)
		return false
	}
	publishCurrent(ck, desc)
	return true
}

type crashRec struct {
	Case string `json:"case"`
	Key  string `json:"key"`
	Msg  string `json:"msg"`
}

var (
	crashOnce sync.Once
	crashMap  map[string]crashRec
)

func crashed() map[string]crashRec {
	crashOnce.Do(func() {
		crashMap = map[string]crashRec{}
		if out := os.Getenv("VERIF_OUT"); out != "" {
			if b, err := os.ReadFile(out + ".crashes"); err == nil {
				var l []crashRec
				if json.Unmarshal(b, &l) == nil {
					for _, c := range l {
						crashMap[c.Case] = c
					}
				}
			}
		}
	})
	return crashMap
}

func publishCurrent(ck string, desc interface{}) {
	if out := os.Getenv("VERIF_OUT"); out != "" {
		b, _ := json.Marshal(map[string]interface{}{"case": ck, "desc": desc})
		_ = os.WriteFile(out+".current", b, 0o644)
	}
}

// ---------------------------------------------------------------------------------------------
// E1: odometer enumeration.

// Product enumerates the cartesian product of dims (sizes), calling f(index, digits) for the cases of
// this shard, simplest (all zero) first. It stops early (marking the report capped) on the deadline.
func Product(r *Report, dims []int, f func(idx int, d []int)) {
	total := 1
	for _, n := range dims {
		if n <= 0 {
			return
		}
		total *= n
	}
	d := make([]int, len(dims))
	dl := Deadline()
	for idx := 0; idx < total; idx++ {
		if Mine(idx) {
			if idx&0x3ff == 0 && time.Now().After(dl) {
				r.Capped(fmt.Sprintf("deadline after %d of %d cases", idx, total))
				return
			}
			f(idx, append([]int(nil), d...))
		}
		for i := len(d) - 1; i >= 0; i-- {
			d[i]++
			if d[i] < dims[i] {
				break
			}
			d[i] = 0
		}
	}
}

// ---------------------------------------------------------------------------------------------
// E2: explicit-state breadth-first search over event histories (successor = replay path + 1 event, or
// whatever build does; the engine only needs canon strings).

type BFSOpts struct {
	MaxDepth  int
	MaxStates int
}

// BFS explores histories. step(hist) must (re)build the world reached by hist and return its canonical
// form and the enabled event labels; it is also where invariants are checked. Events are applied by
// appending to the history.
func BFS(r *Report, step func(hist []string) (canon string, events []string, stop bool), o BFSOpts) {
	seen := map[string]struct{}{}
	c, ev, _ := step(nil)
	seen[c] = struct{}{}
	r.States = 1
	depth := 0
	dl := Deadline()
	type pending struct {
		hist   []string
		events []string
	}
	cur := []pending{{nil, ev}}
	for len(cur) > 0 {
		if o.MaxDepth > 0 && depth >= o.MaxDepth {
			r.Capped(fmt.Sprintf("depth cap %d reached with %d frontier states", o.MaxDepth, len(cur)))
			return
		}
		var next []pending
		for _, p := range cur {
			for _, e := range p.events {
				if time.Now().After(dl) {
					r.Capped(fmt.Sprintf("deadline at depth %d", depth))
					return
				}
				h := append(append([]string{}, p.hist...), e)
				c, evs, stop := step(h)
				r.Transitions++
				if _, ok := seen[c]; ok {
					continue
				}
				seen[c] = struct{}{}
				r.States++
				if o.MaxStates > 0 && r.States >= o.MaxStates {
					r.Capped(fmt.Sprintf("state cap %d reached at depth %d", o.MaxStates, depth))
					return
				}
				if !stop {
					next = append(next, pending{h, evs})
				}
			}
		}
		cur = next
		depth++
	}
	if r.Bound == "" {
		r.Bound = fmt.Sprintf("frontier empty at depth %d", depth)
	}
}

// System is a snapshot/restore-able closed system for explicit-state search over the real code.
type System interface {
	Snapshot() interface{}
	Restore(snap interface{})
	Events() []string // enabled events in the current state (deterministic order)
	Apply(ev string)  // one transition: calls the real code; oracles record findings
	Canon() string    // canonical form of the current state
	TakeFindings() []Finding
}

// BFSSys explores all event sequences of sys breadth-first, deduplicating by Canon. A state in which a
// finding was raised is not expanded further. onTransition is called after every transition.
func BFSSys(r *Report, sys System, o BFSOpts, onTransition func(hist []string, ev string, fs []Finding)) {
	type node struct {
		snap   interface{}
		hist   []string
		events []string
	}
	seen := map[string]struct{}{sys.Canon(): {}}
	r.States++
	cur := []node{{sys.Snapshot(), nil, sys.Events()}}
	depth := 0
	dl := Deadline()
	for len(cur) > 0 {
		if o.MaxDepth > 0 && depth >= o.MaxDepth {
			r.Capped(fmt.Sprintf("depth cap %d reached with %d frontier states", o.MaxDepth, len(cur)))
			return
		}
		var next []node
		for _, n := range cur {
			for _, ev := range n.events {
				if time.Now().After(dl) {
					r.Capped(fmt.Sprintf("deadline at depth %d", depth))
					return
				}
				sys.Restore(n.snap)
				sys.Apply(ev)
				r.Transitions++
				fs := sys.TakeFindings()
				if onTransition != nil {
					onTransition(n.hist, ev, fs)
				}
				c := sys.Canon()
				if _, ok := seen[c]; ok {
					continue
				}
				seen[c] = struct{}{}
				r.States++
				if o.MaxStates > 0 && r.States >= o.MaxStates {
					r.Capped(fmt.Sprintf("state cap %d reached at depth %d", o.MaxStates, depth))
					return
				}
				if len(fs) == 0 {
					next = append(next, node{sys.Snapshot(), append(append([]string{}, n.hist...), ev), sys.Events()})
				}
			}
		}
		cur = next
		depth++
	}
	if r.Bound == "" {
		r.Bound = fmt.Sprintf("frontier empty at depth %d (fixpoint: event sequences of any length covered)", depth)
	}
}

// ---------------------------------------------------------------------------------------------
// Helpers.

// Hash returns a short hex digest.
func Hash(s string) string {
	h := sha1.Sum([]byte(s))
	return hex.EncodeToString(h[:8])
}

// CanonJSON marshals v with sorted map keys (encoding/json sorts map keys).
func CanonJSON(v interface{}) string {
	b, err := json.Marshal(v)
	if err != nil {
		return fmt.Sprintf("<!%v>", err)
	}
	return string(b)
}

// Recover runs f and converts a panic into (value, stack).
func Recover(f func()) (p interface{}, stack string) {
	defer func() {
		if x := recover(); x != nil {
			p = x
			stack = string(debug.Stack())
		}
	}()
	f()
	return nil, ""
}

// SortedKeys returns the sorted keys of a string-keyed map.
func SortedKeys[V any](m map[string]V) []string {
	k := make([]string, 0, len(m))
	for x := range m {
		k = append(k, x)
	}
	sort.Strings(k)
	return k
}
