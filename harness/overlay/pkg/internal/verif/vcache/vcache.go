// Package vcache is the shim that pkg/dynamic/informer/informer.go is built against in every /verif
// build (import path rewrite "k8s.io/client-go/tools/cache" -> this package, DESIGN.md §2.1/§2.3).
// It aliases everything informer.go uses from client-go's cache package and replaces only
// NewSharedIndexInformer by a deterministic informer whose cache changes exclusively through explicit
// harness transitions.
package vcache

import (
	"sync/atomic"
	"fmt"
	"sort"
	"sync"
	"time"

	"k8s.io/apimachinery/pkg/api/meta"
	metav1 "k8s.io/apimachinery/pkg/apis/meta/v1"
	"k8s.io/apimachinery/pkg/runtime"
	"k8s.io/apimachinery/pkg/util/json"
	"k8s.io/apimachinery/pkg/watch"
	"k8s.io/client-go/tools/cache"
)

type (
	SharedIndexInformer              = cache.SharedIndexInformer
	ResourceEventHandler             = cache.ResourceEventHandler
	ResourceEventHandlerRegistration = cache.ResourceEventHandlerRegistration
	ResourceEventHandlerFuncs        = cache.ResourceEventHandlerFuncs
	ListWatch                        = cache.ListWatch
	Indexers                         = cache.Indexers
	DeletedFinalStateUnknown         = cache.DeletedFinalStateUnknown
)

const NamespaceIndex = cache.NamespaceIndex

var MetaNamespaceIndexFunc = cache.MetaNamespaceIndexFunc

// Mode selects what Run does.
type ModeT int

const (
	// Controlled: no LIST/WATCH is ever issued; HasSynced is true from the start; the cache is filled by
	// the harness.
	Controlled ModeT = iota
	// ListWatch: Run issues the real ListFunc once (initial adds are delivered), then the real WatchFunc,
	// reports synced, blocks on stopCh and finally stops the watch.
	ListWatchMode
)

var (
	regMu    sync.Mutex
	registry []*Informer
	Mode     = Controlled
	nextID   int
	release  = make(chan struct{}) // closed by Reset: lets the Run goroutines of the previous world end
)

// Reset forgets all informers created so far (one world per process at a time) and releases the Run
// goroutines of controlled informers of the previous world, so that 10^5 worlds do not leak goroutines.
func Reset() {
	regMu.Lock()
	defer regMu.Unlock()
	registry = nil
	nextID = 0
	close(release)
	release = make(chan struct{})
}

// Registry returns the informers created since the last Reset, in creation order.
func Registry() []*Informer {
	regMu.Lock()
	defer regMu.Unlock()
	return append([]*Informer(nil), registry...)
}

type Informer struct {
	ID int

	mu       sync.Mutex
	lw       cache.ListerWatcher
	indexer  cache.Indexer
	handlers []cache.ResourceEventHandler
	mode     ModeT

	runCalled bool
	synced    bool
	stopped   bool
	syncedCh  chan struct{}
	stoppedCh chan struct{}
	listErr   error
	release   chan struct{}
	stopCh    <-chan struct{}
}

// StopRequested reports whether the stop channel handed to Run has been closed (no waiting involved).
func (i *Informer) StopRequested() bool {
	i.mu.Lock()
	ch := i.stopCh
	i.mu.Unlock()
	if ch == nil {
		return false
	}
	select {
	case <-ch:
		return true
	default:
		return false
	}
}

// StartUnsynced: see NewSharedIndexInformer.
var StartUnsynced atomic.Bool

func NewSharedIndexInformer(lw cache.ListerWatcher, example runtime.Object, resync time.Duration, indexers cache.Indexers) cache.SharedIndexInformer {
	regMu.Lock()
	defer regMu.Unlock()
	nextID++
	inf := &Informer{
		release:   release,
		ID:        nextID,
		lw:        lw,
		indexer:   cache.NewIndexer(cache.DeletionHandlingMetaNamespaceKeyFunc, indexers),
		mode:      Mode,
		syncedCh:  make(chan struct{}),
		stoppedCh: make(chan struct{}),
	}
	if inf.mode == Controlled {
		// StartUnsynced: informers created while it is set never report HasSynced (an informer whose LIST keeps
		// failing: missing RBAC, a broken aggregated API)
		inf.synced = !StartUnsynced.Load()
		close(inf.syncedCh)
	}
	registry = append(registry, inf)
	return inf
}

type registration struct{ inf *Informer }

func (r registration) HasSynced() bool { return r.inf.HasSynced() }

func (i *Informer) AddEventHandler(h cache.ResourceEventHandler) (cache.ResourceEventHandlerRegistration, error) {
	i.mu.Lock()
	defer i.mu.Unlock()
	i.handlers = append(i.handlers, h)
	return registration{i}, nil
}

func (i *Informer) AddEventHandlerWithResyncPeriod(h cache.ResourceEventHandler, _ time.Duration) (cache.ResourceEventHandlerRegistration, error) {
	return i.AddEventHandler(h)
}

func (i *Informer) RemoveEventHandler(cache.ResourceEventHandlerRegistration) error {
	return fmt.Errorf("vcache: RemoveEventHandler is not used by metacontroller")
}
func (i *Informer) GetStore() cache.Store           { return i.indexer }
func (i *Informer) GetIndexer() cache.Indexer       { return i.indexer }
func (i *Informer) GetController() cache.Controller { return nil }
func (i *Informer) LastSyncResourceVersion() string { return "" }
func (i *Informer) SetWatchErrorHandler(cache.WatchErrorHandler) error {
	return nil
}
func (i *Informer) SetTransform(cache.TransformFunc) error { return nil }
func (i *Informer) IsStopped() bool {
	i.mu.Lock()
	defer i.mu.Unlock()
	return i.stopped
}
func (i *Informer) AddIndexers(ix cache.Indexers) error { return i.indexer.AddIndexers(ix) }

func (i *Informer) HasSynced() bool {
	i.mu.Lock()
	defer i.mu.Unlock()
	return i.synced
}

// Run implements cache.SharedInformer.
func (i *Informer) Run(stopCh <-chan struct{}) {
	i.mu.Lock()
	i.runCalled = true
	i.stopCh = stopCh
	mode := i.mode
	i.mu.Unlock()
	var w watch.Interface
	if mode == ListWatchMode {
		list, err := i.lw.List(metav1.ListOptions{})
		rv := ""
		if err == nil {
			var items []runtime.Object
			items, err = meta.ExtractList(list)
			if err == nil {
				if lm, e := meta.ListAccessor(list); e == nil {
					rv = lm.GetResourceVersion()
				}
				for _, it := range items {
					i.set(it, true)
				}
			}
		}
		if err == nil {
			w, err = i.lw.Watch(metav1.ListOptions{ResourceVersion: rv})
		}
		i.mu.Lock()
		i.listErr = err
		i.synced = err == nil
		i.mu.Unlock()
		close(i.syncedCh)
	}
	if mode == Controlled {
		select {
		case <-stopCh:
		case <-i.release:
		}
	} else {
		<-stopCh
	}
	if w != nil {
		w.Stop()
	}
	i.mu.Lock()
	i.stopped = true
	i.mu.Unlock()
	close(i.stoppedCh)
}

// WaitStarted blocks until Run finished its start-up (ListWatch mode) - immediate in Controlled mode.
func (i *Informer) WaitStarted() error {
	<-i.syncedCh
	i.mu.Lock()
	defer i.mu.Unlock()
	return i.listErr
}

// WaitStopped blocks until Run returned.
func (i *Informer) WaitStopped() { <-i.stoppedCh }

func (i *Informer) Stopped() bool { return i.IsStopped() }

func (i *Informer) snapshotHandlers() []cache.ResourceEventHandler {
	i.mu.Lock()
	defer i.mu.Unlock()
	return append([]cache.ResourceEventHandler(nil), i.handlers...)
}

// Set adds or replaces obj in the cache and synchronously notifies the handlers.
func (i *Informer) Set(obj runtime.Object) { i.set(obj, false) }

func (i *Informer) set(obj runtime.Object, initial bool) {
	key, err := cache.MetaNamespaceKeyFunc(obj)
	if err != nil {
		panic(err)
	}
	old, exists, _ := i.indexer.GetByKey(key)
	if exists {
		_ = i.indexer.Update(obj)
		for _, h := range i.snapshotHandlers() {
			h.OnUpdate(old, obj)
		}
		return
	}
	_ = i.indexer.Add(obj)
	for _, h := range i.snapshotHandlers() {
		h.OnAdd(obj, initial)
	}
}

// Delete removes key from the cache and notifies the handlers, with the last cached object or - if
// tombstone is set - wrapped in DeletedFinalStateUnknown as a relist would. Returns false if absent.
func (i *Informer) Delete(key string, tombstone bool) bool {
	old, exists, _ := i.indexer.GetByKey(key)
	if !exists {
		return false
	}
	_ = i.indexer.Delete(old)
	var ev interface{} = old
	if tombstone {
		ev = cache.DeletedFinalStateUnknown{Key: key, Obj: old}
	}
	for _, h := range i.snapshotHandlers() {
		h.OnDelete(ev)
	}
	return true
}

// Resync replays every cached object as OnUpdate(o, o), as the shared informer's periodic resync does.
func (i *Informer) Resync() {
	for _, o := range i.indexer.List() {
		for _, h := range i.snapshotHandlers() {
			h.OnUpdate(o, o)
		}
	}
}

// ReplaceSilently sets the cache content without notifying anyone (snapshot restore).
func (i *Informer) ReplaceSilently(objs []interface{}) {
	_ = i.indexer.Replace(objs, "")
}

// Keys returns the sorted cache keys.
func (i *Informer) Keys() []string {
	k := i.indexer.ListKeys()
	sort.Strings(k)
	return k
}

// ---------------------------------------------------------------------------------------------
// Cache-immutability fingerprints (DESIGN §2.3).

type fpEntry struct {
	obj  interface{}
	json string
}

// Fingerprint is a snapshot of pointer identity and content of every cached object.
type Fingerprint struct{ entries []fpEntry }

var (
	extraMu       sync.Mutex
	extraIndexers []cache.Indexer
)

// TrackIndexer includes an indexer that does not belong to a vcache informer (the ControllerRevision
// lister's) in the fingerprints. Cleared by ResetTracked.
func TrackIndexer(ix cache.Indexer) {
	extraMu.Lock()
	defer extraMu.Unlock()
	extraIndexers = append(extraIndexers, ix)
}

func ResetTracked() {
	extraMu.Lock()
	defer extraMu.Unlock()
	extraIndexers = nil
}

func TakeFingerprint() *Fingerprint {
	fp := &Fingerprint{}
	add := func(ix cache.Indexer) {
		for _, o := range ix.List() {
			b, _ := json.Marshal(o)
			fp.entries = append(fp.entries, fpEntry{o, string(b)})
		}
	}
	for _, inf := range Registry() {
		add(inf.indexer)
	}
	extraMu.Lock()
	ex := append([]cache.Indexer(nil), extraIndexers...)
	extraMu.Unlock()
	for _, ix := range ex {
		add(ix)
	}
	return fp
}

// Len is the number of objects fingerprinted.
func (f *Fingerprint) Len() int { return len(f.entries) }

// Verify re-serialises every object of the snapshot (by pointer) and reports the first one whose
// content changed: a cached object was mutated in place.
func (f *Fingerprint) Verify() error {
	for _, e := range f.entries {
		b, _ := json.Marshal(e.obj)
		if string(b) != e.json {
			return fmt.Errorf("cached object mutated in place:\n before: %s\n after:  %s", e.json, string(b))
		}
	}
	return nil
}
