// Package vtime is the shim pkg/dynamic/informer/informer.go is built against in the C18 build
// (import path rewrite "time" -> this package): tickers are fired by harness transitions instead of by
// the wall clock. Everything else is an alias of package time.
package vtime

import (
	"sync"
	"time"
)

type (
	Duration = time.Duration
	Time     = time.Time
)

const (
	Nanosecond  = time.Nanosecond
	Microsecond = time.Microsecond
	Millisecond = time.Millisecond
	Second      = time.Second
	Minute      = time.Minute
	Hour        = time.Hour
)

var Now = time.Now

// Ticker mirrors time.Ticker; C only ever carries ticks sent by Fire.
type Ticker struct {
	C       <-chan time.Time
	c       chan time.Time
	Period  time.Duration
	mu      sync.Mutex
	stopped bool
	ID      int
}

var (
	mu      sync.Mutex
	tickers []*Ticker
)

// Reset forgets all tickers (one world at a time).
func Reset() {
	mu.Lock()
	defer mu.Unlock()
	tickers = nil
}

// Tickers returns the tickers created since the last Reset, in creation order.
func Tickers() []*Ticker {
	mu.Lock()
	defer mu.Unlock()
	return append([]*Ticker(nil), tickers...)
}

func NewTicker(d time.Duration) *Ticker {
	mu.Lock()
	defer mu.Unlock()
	c := make(chan time.Time)
	t := &Ticker{C: c, c: c, Period: d, ID: len(tickers)}
	tickers = append(tickers, t)
	return t
}

func (t *Ticker) Stop() {
	t.mu.Lock()
	t.stopped = true
	t.mu.Unlock()
}

func (t *Ticker) Stopped() bool {
	t.mu.Lock()
	defer t.mu.Unlock()
	return t.stopped
}

// Fire delivers one tick; it returns once the ticker's goroutine has received it (false if nobody
// took it within the watchdog - the goroutine is gone).
func (t *Ticker) Fire() bool {
	select {
	case t.c <- time.Unix(0, 0):
		return true
	case <-time.After(120 * time.Second): // liveness watchdog only, never a safety oracle
		return false
	}
}
