// Package sim is a deterministic, in-memory model of the subset of the Kubernetes API server that
// metacontroller talks to. It is the environment half of the closed system explored by the checks
// in /verif (DESIGN.md §2.2). The front end is an http.RoundTripper so that the real dynamic client
// and the real generated clientset run unmodified on top of it.
package sim

import (
	"bytes"
	"fmt"
	"io"
	"net/http"
	"net/url"
	"reflect"
	"sort"
	"strconv"
	"strings"
	"sync"

	jsonpatch "github.com/evanphx/json-patch/v5"
	apivalidation "k8s.io/apimachinery/pkg/api/validation"
	metav1 "k8s.io/apimachinery/pkg/apis/meta/v1"
	"k8s.io/apimachinery/pkg/apis/meta/v1/unstructured"
	"k8s.io/apimachinery/pkg/labels"
	"k8s.io/apimachinery/pkg/runtime"
	"k8s.io/apimachinery/pkg/runtime/schema"
	"k8s.io/apimachinery/pkg/types"
	"k8s.io/apimachinery/pkg/util/json"
	"k8s.io/apimachinery/pkg/util/validation/field"
)

// Kind describes one served resource.
type Kind struct {
	Group, Version, Resource, Kind string
	Namespaced                     bool
	StatusSub                      bool
	StoreKey                       string // non-empty: objects of this kind live in a store of their own (default: one store per group+resource, shared by all served versions)
	ScaleSub                       bool   // discovery also lists <resource>/scale, after <resource>/status as apiextensions does (not served)
	NoGeneration                   bool   // the server does not maintain metadata.generation for this kind (as for several built-in kinds)
	SubFirst                       bool   // discovery lists <resource>/status BEFORE <resource> (the order of a discovery list is not specified)
}

func (k *Kind) APIVersion() string {
	if k.Group == "" {
		return k.Version
	}
	return k.Group + "/" + k.Version
}

func (k *Kind) GVR() schema.GroupVersionResource {
	return schema.GroupVersionResource{Group: k.Group, Version: k.Version, Resource: k.Resource}
}

// Request is one entry of the request log.
type Request struct {
	Seq      int
	Actor    string // set from Server.Actor at the time of the request
	Verb     string // get list watch create update patch apply delete
	Kind     *Kind
	NS, Name string
	Sub      string // "" or "status"
	Query    url.Values
	Body     map[string]interface{} // decoded request body (object, patch wrapper or DeleteOptions)
	RawBody  []byte
	Pre      map[string]interface{} // stored object before the request (nil if absent)
	Post     map[string]interface{} // stored object after the request (nil if absent)
	Code     int                    // HTTP status code answered
	Reason   string
	Injected bool // answer produced by the fault plan
	Applied  bool // the store changed
}

// Mutating reports whether the request is a write verb.
func (r *Request) Mutating() bool {
	switch r.Verb {
	case "create", "update", "patch", "apply", "delete":
		return true
	}
	return false
}

// Ident is the order-independent identity of a request within one sync (DESIGN §2.5); the n-th
// occurrence counter is added by the caller.
func (r *Request) Ident() string {
	return fmt.Sprintf("%s %s %s/%s %s", r.Verb, r.Kind.Resource, r.NS, r.Name, r.Sub)
}

func (r *Request) String() string {
	return fmt.Sprintf("#%d[%s] %s -> %d %s", r.Seq, r.Actor, r.Ident(), r.Code, r.Reason)
}

// Fault is an injected answer.
type Fault struct {
	Code      int    // HTTP status to answer (0 with Transport=true: transport error)
	Reason    string // metav1.StatusReason
	Transport bool   // fail the round trip itself (client sees a non-API error)
	Apply     bool   // apply the request to the store, then answer with the fault ("lost response")
}

// Server is the simulated API server. Not safe for free-running concurrent use beyond a coarse
// mutex; concurrent checks serialise requests through Gate.
type Server struct {
	mu    sync.Mutex
	kinds []*Kind
	objs  map[string]map[string]interface{}
	rv    int64
	uid   int64
	seq   int

	ssa map[string]map[string]interface{} // objKey|manager -> last applied config

	Log []*Request

	// Actor labels requests in the log; ActorFn (if set) overrides it (concurrent checks).
	Actor   string
	ActorFn func() string
	// Plan, if set, may answer a request with an injected fault. It is called with the mutex held,
	// before the request is applied, with Pre filled in.
	Plan func(r *Request) *Fault
	// Gate, if set, is called before a request is processed, without the mutex (scheduler yield).
	Gate func(verb string, k *Kind, ns, name, sub string)
	// OnApplied, if set, is called (mutex held) after a request changed the store.
	OnApplied func(r *Request)

	OpenWatches map[string]int // resource key -> currently open watch streams
	WatchOpens  map[string]int // resource key -> watch streams ever opened
	Lists       map[string]int // resource key -> LIST requests served

	// KeepLog=false drops the log (long running searches set it per step).
	NoLog bool
}

const (
	FixedTime = "2026-01-01T00:00:00Z"
	Host      = "sim.invalid"
)

func New(kinds ...*Kind) *Server {
	return &Server{
		kinds:       kinds,
		objs:        map[string]map[string]interface{}{},
		ssa:         map[string]map[string]interface{}{},
		OpenWatches: map[string]int{},
		WatchOpens:  map[string]int{},
		Lists:       map[string]int{},
	}
}

func (s *Server) Kinds() []*Kind { return s.kinds }

func (s *Server) KindByResource(group, version, resource string) *Kind {
	for _, k := range s.kinds {
		if k.Group == group && k.Version == version && k.Resource == resource {
			return k
		}
	}
	return nil
}

func (s *Server) KindByKind(apiVersion, kind string) *Kind {
	for _, k := range s.kinds {
		if k.APIVersion() == apiVersion && k.Kind == kind {
			return k
		}
	}
	return nil
}

// Discovery returns the discovery document for the registered kinds.
func (s *Server) Discovery() []*metav1.APIResourceList {
	byGV := map[string]*metav1.APIResourceList{}
	var order []string
	for _, k := range s.kinds {
		gv := k.APIVersion()
		l := byGV[gv]
		if l == nil {
			l = &metav1.APIResourceList{GroupVersion: gv}
			byGV[gv] = l
			order = append(order, gv)
		}
		main := metav1.APIResource{
			Name: k.Resource, Kind: k.Kind, Namespaced: k.Namespaced, Group: k.Group, Version: k.Version,
			Verbs: metav1.Verbs{"get", "list", "watch", "create", "update", "patch", "delete"},
		}
		if !k.SubFirst {
			l.APIResources = append(l.APIResources, main)
		}
		if k.StatusSub {
			l.APIResources = append(l.APIResources, metav1.APIResource{
				Name: k.Resource + "/status", Kind: k.Kind, Namespaced: k.Namespaced, Group: k.Group, Version: k.Version,
				Verbs: metav1.Verbs{"get", "update", "patch"},
			})
		}
		if k.ScaleSub {
			l.APIResources = append(l.APIResources, metav1.APIResource{
				Name: k.Resource + "/scale", Kind: "Scale", Namespaced: k.Namespaced, Group: "autoscaling", Version: "v1",
				Verbs: metav1.Verbs{"get", "update", "patch"},
			})
		}
		if k.SubFirst {
			l.APIResources = append(l.APIResources, main)
		}
	}
	var out []*metav1.APIResourceList
	for _, gv := range order {
		out = append(out, byGV[gv])
	}
	return out
}

func objKey(k *Kind, ns, name string) string {
	return resKey(k) + "|" + ns + "|" + name
}

// ResKey is the key under which the request counters (Lists, OpenWatches, WatchOpens) account a kind.
func ResKey(k *Kind) string { return resKey(k) }

func resKey(k *Kind) string {
	if k.StoreKey != "" {
		return k.StoreKey
	}
	return k.Group + "|" + k.Resource
}

// ---------------------------------------------------------------------------------------------
// Harness-side access (not logged as controller traffic).

// Seed stores obj as if created long ago. Missing uid/resourceVersion/generation/creationTimestamp are
// assigned. Returns the stored copy's UID.
func (s *Server) Seed(obj map[string]interface{}) string {
	s.mu.Lock()
	defer s.mu.Unlock()
	o := runtime.DeepCopyJSON(obj)
	u := &unstructured.Unstructured{Object: o}
	k := s.KindByKind(u.GetAPIVersion(), u.GetKind())
	if k == nil {
		panic(fmt.Sprintf("sim.Seed: unknown kind %s %s", u.GetAPIVersion(), u.GetKind()))
	}
	if !k.Namespaced && u.GetNamespace() != "" {
		panic("sim.Seed: namespace on cluster-scoped object")
	}
	if k.Namespaced && u.GetNamespace() == "" {
		panic("sim.Seed: no namespace on namespaced object")
	}
	s.stamp(u, true)
	if k.NoGeneration {
		unstructured.RemoveNestedField(o, "metadata", "generation")
	}
	s.objs[objKey(k, u.GetNamespace(), u.GetName())] = o
	return string(u.GetUID())
}

// SeedVerbatim is Seed for an object that already carries the resourceVersion it shall be stored with (harnesses
// that need to know it beforehand, e.g. to put it into a last-applied record). The caller picks a value above
// anything the server hands out during the test.
func (s *Server) SeedVerbatim(obj map[string]interface{}) string {
	rv, _, _ := unstructured.NestedString(obj, "metadata", "resourceVersion")
	uid := s.Seed(obj)
	s.mu.Lock()
	defer s.mu.Unlock()
	u := &unstructured.Unstructured{Object: obj}
	k := s.KindByKind(u.GetAPIVersion(), u.GetKind())
	if o := s.objs[objKey(k, u.GetNamespace(), u.GetName())]; o != nil && rv != "" {
		_ = unstructured.SetNestedField(o, rv, "metadata", "resourceVersion")
	}
	return uid
}

func (s *Server) stamp(u *unstructured.Unstructured, fresh bool) {
	if fresh {
		if u.GetUID() == "" {
			s.uid++
			u.SetUID(types.UID(fmt.Sprintf("uid-%d", s.uid)))
		}
		if _, ok, _ := unstructured.NestedInt64(u.Object, "metadata", "generation"); !ok {
			u.SetGeneration(1)
		}
		_ = unstructured.SetNestedField(u.Object, FixedTime, "metadata", "creationTimestamp")
	}
	s.rv++
	u.SetResourceVersion(strconv.FormatInt(s.rv, 10))
}

// Get returns a deep copy of the stored object or nil.
func (s *Server) Get(k *Kind, ns, name string) map[string]interface{} {
	s.mu.Lock()
	defer s.mu.Unlock()
	o := s.objs[objKey(k, ns, name)]
	if o == nil {
		return nil
	}
	return runtime.DeepCopyJSON(o)
}

// All returns deep copies of all stored objects of kind k (sorted by ns/name), k == nil: everything.
func (s *Server) All(k *Kind) []map[string]interface{} {
	s.mu.Lock()
	defer s.mu.Unlock()
	var keys []string
	for key := range s.objs {
		if k == nil || strings.HasPrefix(key, resKey(k)+"|") {
			keys = append(keys, key)
		}
	}
	sort.Strings(keys)
	out := make([]map[string]interface{}, 0, len(keys))
	for _, key := range keys {
		out = append(out, runtime.DeepCopyJSON(s.objs[key]))
	}
	return out
}

// Edit applies f to a copy of the stored object and stores the result as an external writer would:
// resourceVersion bumped, generation bumped when non-metadata/non-status content changed, object
// removed if it ends up with a deletionTimestamp and no finalizers. Returns false if absent.
func (s *Server) Edit(k *Kind, ns, name string, f func(o map[string]interface{})) bool {
	s.mu.Lock()
	defer s.mu.Unlock()
	key := objKey(k, ns, name)
	old := s.objs[key]
	if old == nil {
		return false
	}
	n := runtime.DeepCopyJSON(old)
	f(n)
	s.commitUpdate(k, key, old, n, "")
	return true
}

// EditLocked is Edit for use inside a Plan callback (the server mutex is already held): it lets a fault
// plan *cause* a conflict by really changing the object between a controller's GET and PUT.
func (s *Server) EditLocked(k *Kind, ns, name string, f func(o map[string]interface{})) bool {
	key := objKey(k, ns, name)
	old := s.objs[key]
	if old == nil {
		return false
	}
	n := runtime.DeepCopyJSON(old)
	f(n)
	s.commitUpdate(k, key, old, n, "")
	return true
}

// GetLocked is Get for use inside a Plan callback.
func (s *Server) GetLocked(k *Kind, ns, name string) map[string]interface{} {
	o := s.objs[objKey(k, ns, name)]
	if o == nil {
		return nil
	}
	return runtime.DeepCopyJSON(o)
}

// RemoveLocked is Remove for use inside a Plan callback.
func (s *Server) RemoveLocked(k *Kind, ns, name string) bool {
	key := objKey(k, ns, name)
	if s.objs[key] == nil {
		return false
	}
	delete(s.objs, key)
	s.dropSSA(key)
	s.rv++
	return true
}

// SeedLocked is Seed for use inside a Plan callback.
func (s *Server) SeedLocked(obj map[string]interface{}) {
	o := runtime.DeepCopyJSON(obj)
	u := &unstructured.Unstructured{Object: o}
	k := s.KindByKind(u.GetAPIVersion(), u.GetKind())
	s.stamp(u, true)
	if k.NoGeneration {
		unstructured.RemoveNestedField(o, "metadata", "generation")
	}
	s.objs[objKey(k, u.GetNamespace(), u.GetName())] = o
}

// Remove deletes the object outright (external delete that completed, no finalizer processing).
func (s *Server) Remove(k *Kind, ns, name string) bool {
	s.mu.Lock()
	defer s.mu.Unlock()
	key := objKey(k, ns, name)
	if s.objs[key] == nil {
		return false
	}
	delete(s.objs, key)
	s.dropSSA(key)
	s.rv++
	return true
}

// ExternalDelete behaves like a DELETE request from another client (finalizers honoured).
func (s *Server) ExternalDelete(k *Kind, ns, name string, policy string) bool {
	s.mu.Lock()
	defer s.mu.Unlock()
	key := objKey(k, ns, name)
	old := s.objs[key]
	if old == nil {
		return false
	}
	s.deleteLocked(k, key, old, policy)
	return true
}

// GC performs one garbage-collector pass: objects all of whose owners are gone (by UID) are deleted
// (background), and foreground/orphan finalizers are completed. Returns the number of changes.
func (s *Server) GC() int {
	s.mu.Lock()
	defer s.mu.Unlock()
	changes := 0
	for pass := 0; pass < 8; pass++ {
		n := s.gcPass()
		changes += n
		if n == 0 {
			break
		}
	}
	return changes
}

func (s *Server) gcPass() int {
	uids := map[string]bool{}
	for _, o := range s.objs {
		uids[nestedString(o, "metadata", "uid")] = true
	}
	n := 0
	keys := make([]string, 0, len(s.objs))
	for key := range s.objs {
		keys = append(keys, key)
	}
	sort.Strings(keys)
	for _, key := range keys {
		o := s.objs[key]
		if o == nil {
			continue
		}
		u := &unstructured.Unstructured{Object: o}
		k := s.KindByKind(u.GetAPIVersion(), u.GetKind())
		// dependents whose owners are all gone
		refs := u.GetOwnerReferences()
		if len(refs) > 0 {
			alive := false
			for _, r := range refs {
				if uids[string(r.UID)] {
					alive = true
				}
			}
			if !alive {
				s.deleteLocked(k, key, o, "Background")
				n++
				continue
			}
		}
		if u.GetDeletionTimestamp() != nil {
			fins := u.GetFinalizers()
			var keep []string
			changed := false
			for _, f := range fins {
				switch f {
				case metav1.FinalizerOrphanDependents:
					// orphan dependents: strip owner refs pointing at u
					for dk, d := range s.objs {
						du := &unstructured.Unstructured{Object: d}
						var nr []metav1.OwnerReference
						ch := false
						for _, r := range du.GetOwnerReferences() {
							if r.UID == u.GetUID() {
								ch = true
								continue
							}
							nr = append(nr, r)
						}
						if ch {
							nd := runtime.DeepCopyJSON(d)
							(&unstructured.Unstructured{Object: nd}).SetOwnerReferences(nr)
							if len(nr) == 0 {
								unstructured.RemoveNestedField(nd, "metadata", "ownerReferences")
							}
							s.commitUpdate(s.KindByKind(du.GetAPIVersion(), du.GetKind()), dk, d, nd, "")
						}
					}
					changed = true
				case metav1.FinalizerDeleteDependents:
					// delete dependents first; finalizer goes when none with blockOwnerDeletion remain
					remaining := false
					for dk, d := range s.objs {
						du := &unstructured.Unstructured{Object: d}
						for _, r := range du.GetOwnerReferences() {
							if r.UID == u.GetUID() {
								remaining = true
								if du.GetDeletionTimestamp() == nil {
									s.deleteLocked(s.KindByKind(du.GetAPIVersion(), du.GetKind()), dk, d, "Background")
									n++
								}
							}
						}
					}
					if remaining {
						keep = append(keep, f)
					} else {
						changed = true
					}
				default:
					keep = append(keep, f)
				}
			}
			if changed {
				nd := runtime.DeepCopyJSON(o)
				(&unstructured.Unstructured{Object: nd}).SetFinalizers(keep)
				if len(keep) == 0 {
					unstructured.RemoveNestedField(nd, "metadata", "finalizers")
				}
				s.commitUpdate(k, key, o, nd, "")
				n++
			}
		}
	}
	return n
}

// ---------------------------------------------------------------------------------------------
// Snapshot / restore.

type Snap struct {
	objs     map[string]map[string]interface{}
	ssa      map[string]map[string]interface{}
	rv, uid  int64
	seq, log int
}

func (s *Server) Snapshot() *Snap {
	s.mu.Lock()
	defer s.mu.Unlock()
	sn := &Snap{objs: map[string]map[string]interface{}{}, ssa: map[string]map[string]interface{}{}, rv: s.rv, uid: s.uid, seq: s.seq, log: len(s.Log)}
	for k, v := range s.objs {
		sn.objs[k] = runtime.DeepCopyJSON(v)
	}
	for k, v := range s.ssa {
		sn.ssa[k] = runtime.DeepCopyJSON(v)
	}
	return sn
}

func (s *Server) Restore(sn *Snap) {
	s.mu.Lock()
	defer s.mu.Unlock()
	s.objs = map[string]map[string]interface{}{}
	s.ssa = map[string]map[string]interface{}{}
	for k, v := range sn.objs {
		s.objs[k] = runtime.DeepCopyJSON(v)
	}
	for k, v := range sn.ssa {
		s.ssa[k] = runtime.DeepCopyJSON(v)
	}
	s.rv, s.uid, s.seq = sn.rv, sn.uid, sn.seq
	if len(s.Log) > sn.log {
		s.Log = s.Log[:sn.log]
	}
}

// ResetLog empties the request log.
func (s *Server) ResetLog() {
	s.mu.Lock()
	defer s.mu.Unlock()
	s.Log = nil
}

// Dump returns canonical JSON of the whole store (sorted), optionally scrubbing resourceVersions.
func (s *Server) Dump(scrubRV bool) string {
	all := s.All(nil)
	if scrubRV {
		for _, o := range all {
			unstructured.RemoveNestedField(o, "metadata", "resourceVersion")
		}
	}
	b, _ := json.Marshal(all)
	return string(b)
}

// ---------------------------------------------------------------------------------------------
// REST front end.

type blockingBody struct {
	once  sync.Once
	ch    chan struct{}
	close func()
}

func (b *blockingBody) Read(p []byte) (int, error) {
	<-b.ch
	return 0, io.EOF
}

func (b *blockingBody) Close() error {
	b.once.Do(func() {
		close(b.ch)
		if b.close != nil {
			b.close()
		}
	})
	return nil
}

type transportError struct{ msg string }

func (e *transportError) Error() string { return e.msg }

// RoundTrip implements http.RoundTripper.
func (s *Server) RoundTrip(req *http.Request) (*http.Response, error) {
	var body []byte
	if req.Body != nil {
		body, _ = io.ReadAll(req.Body)
		req.Body.Close()
	}
	r, perr := s.parse(req, body)
	if perr != nil {
		return s.respond(req, perr.code, statusBody(perr.code, perr.reason, perr.msg)), nil
	}
	if s.Gate != nil {
		s.Gate(r.Verb, r.Kind, r.NS, r.Name, r.Sub)
	}
	if r.Verb == "watch" {
		s.mu.Lock()
		rk := resKey(r.Kind)
		s.OpenWatches[rk]++
		s.WatchOpens[rk]++
		s.mu.Unlock()
		bb := &blockingBody{ch: make(chan struct{}), close: func() {
			s.mu.Lock()
			s.OpenWatches[rk]--
			s.mu.Unlock()
		}}
		// Honour request cancellation like a real transport does.
		if ctx := req.Context(); ctx != nil && ctx.Done() != nil {
			go func() {
				select {
				case <-ctx.Done():
					bb.Close()
				case <-bb.ch:
				}
			}()
		}
		resp := s.respond(req, 200, nil)
		resp.Body = bb
		return resp, nil
	}

	s.mu.Lock()
	defer s.mu.Unlock()
	s.seq++
	r.Seq = s.seq
	r.Actor = s.Actor
	if s.ActorFn != nil {
		r.Actor = s.ActorFn()
	}
	if r.Verb == "create" && r.Name == "" && r.Body != nil {
		// the target of a POST is named in the body: fill it in so that plans and identities see it
		r.Name = nestedString(r.Body, "metadata", "name")
	}
	key := objKey(r.Kind, r.NS, r.Name)
	if r.Name != "" {
		if o := s.objs[key]; o != nil {
			r.Pre = runtime.DeepCopyJSON(o)
		}
	}
	var fault *Fault
	if s.Plan != nil {
		fault = s.Plan(r)
	}
	var out interface{}
	if fault == nil || fault.Apply {
		out = s.apply(r)
	}
	if fault != nil {
		r.Injected = true
		if fault.Transport {
			r.Code, r.Reason = 0, "TransportError"
		} else {
			r.Code, r.Reason = fault.Code, fault.Reason
		}
	}
	if r.Name != "" {
		if o := s.objs[key]; o != nil {
			r.Post = runtime.DeepCopyJSON(o)
		}
	}
	r.Applied = !reflect.DeepEqual(r.Pre, r.Post)
	if !s.NoLog {
		s.Log = append(s.Log, r)
	}
	if r.Applied && s.OnApplied != nil {
		s.OnApplied(r)
	}
	if fault != nil {
		if fault.Transport {
			return nil, &transportError{"sim: injected transport failure (request timed out)"}
		}
		return s.respond(req, fault.Code, statusBody(fault.Code, fault.Reason, "injected fault")), nil
	}
	if r.Code >= 400 {
		return s.respond(req, r.Code, out.([]byte)), nil
	}
	b, err := json.Marshal(out)
	if err != nil {
		panic(err)
	}
	return s.respond(req, r.Code, b), nil
}

func (s *Server) respond(req *http.Request, code int, body []byte) *http.Response {
	h := http.Header{}
	h.Set("Content-Type", "application/json")
	return &http.Response{
		StatusCode: code, Status: fmt.Sprintf("%d %s", code, http.StatusText(code)),
		Proto: "HTTP/1.1", ProtoMajor: 1, ProtoMinor: 1,
		Header: h, Body: io.NopCloser(bytes.NewReader(body)), ContentLength: int64(len(body)), Request: req,
	}
}

type parseErr struct {
	code        int
	reason, msg string
}

func (s *Server) parse(req *http.Request, body []byte) (*Request, *parseErr) {
	parts := strings.Split(strings.Trim(req.URL.Path, "/"), "/")
	var group, version string
	switch {
	case len(parts) >= 2 && parts[0] == "api":
		group, version, parts = "", parts[1], parts[2:]
	case len(parts) >= 3 && parts[0] == "apis":
		group, version, parts = parts[1], parts[2], parts[3:]
	default:
		return nil, &parseErr{404, "NotFound", "unknown path " + req.URL.Path}
	}
	ns := ""
	nsSet := false
	if len(parts) >= 3 && parts[0] == "namespaces" {
		ns, nsSet, parts = parts[1], true, parts[2:]
	}
	if len(parts) == 0 {
		return nil, &parseErr{404, "NotFound", "no resource in " + req.URL.Path}
	}
	k := s.KindByResource(group, version, parts[0])
	if k == nil {
		return nil, &parseErr{404, "NotFound", "the server could not find the requested resource " + req.URL.Path}
	}
	r := &Request{Kind: k, NS: ns, Query: req.URL.Query(), RawBody: body}
	if len(parts) >= 2 {
		r.Name = parts[1]
	}
	if len(parts) >= 3 {
		r.Sub = parts[2]
	}
	if nsSet && !k.Namespaced {
		return nil, &parseErr{404, "NotFound", "namespace given for cluster-scoped resource"}
	}
	switch req.Method {
	case "GET":
		if r.Name != "" {
			r.Verb = "get"
		} else if r.Query.Get("watch") == "true" || r.Query.Get("watch") == "1" {
			r.Verb = "watch"
		} else {
			r.Verb = "list"
		}
	case "POST":
		r.Verb = "create"
	case "PUT":
		r.Verb = "update"
	case "PATCH":
		ct := req.Header.Get("Content-Type")
		switch {
		case strings.HasPrefix(ct, "application/json-patch+json"):
			r.Verb = "patch"
		case strings.HasPrefix(ct, "application/apply-patch"):
			r.Verb = "apply"
		default:
			return nil, &parseErr{415, "UnsupportedMediaType", "sim supports json-patch and apply-patch only, got " + ct}
		}
	case "DELETE":
		r.Verb = "delete"
	default:
		return nil, &parseErr{405, "MethodNotAllowed", req.Method}
	}
	if k.Namespaced && !nsSet && r.Verb != "list" && r.Verb != "watch" {
		// namespaced resources only expose collection reads at the root path
		return nil, &parseErr{405, "MethodNotAllowed", "the server does not allow this method on the requested resource"}
	}
	if r.Sub != "" && !(r.Sub == "status" && k.StatusSub) {
		return nil, &parseErr{404, "NotFound", "the server could not find the requested resource (subresource " + r.Sub + ")"}
	}
	if len(body) > 0 && r.Verb != "patch" {
		m := map[string]interface{}{}
		if err := json.Unmarshal(body, &m); err != nil {
			return nil, &parseErr{400, "BadRequest", "cannot decode body: " + err.Error()}
		}
		r.Body = m
	}
	return r, nil
}

func statusBody(code int, reason, msg string) []byte {
	st := map[string]interface{}{
		"kind": "Status", "apiVersion": "v1", "metadata": map[string]interface{}{},
		"status": "Failure", "message": msg, "reason": reason, "code": int64(code),
	}
	b, _ := json.Marshal(st)
	return b
}

func (s *Server) fail(r *Request, code int, reason, msg string) interface{} {
	r.Code, r.Reason = code, reason
	return statusBody(code, reason, fmt.Sprintf("%s %q: %s", r.Kind.Resource, r.Name, msg))
}

func (s *Server) apply(r *Request) interface{} {
	k := r.Kind
	key := objKey(k, r.NS, r.Name)
	switch r.Verb {
	case "get":
		o := s.objs[key]
		if o == nil {
			return s.fail(r, 404, "NotFound", "not found")
		}
		r.Code = 200
		return runtime.DeepCopyJSON(o)
	case "list":
		s.Lists[resKey(k)]++
		sel := labels.Everything()
		if ls := r.Query.Get("labelSelector"); ls != "" {
			var err error
			if sel, err = labels.Parse(ls); err != nil {
				return s.fail(r, 400, "BadRequest", err.Error())
			}
		}
		var keys []string
		for kk := range s.objs {
			if strings.HasPrefix(kk, resKey(k)+"|") {
				keys = append(keys, kk)
			}
		}
		sort.Strings(keys)
		items := []interface{}{}
		for _, kk := range keys {
			o := s.objs[kk]
			if r.NS != "" && nestedString(o, "metadata", "namespace") != r.NS {
				continue
			}
			lbls, _, _ := unstructured.NestedStringMap(o, "metadata", "labels")
			if !sel.Matches(labels.Set(lbls)) {
				continue
			}
			items = append(items, runtime.DeepCopyJSON(o))
		}
		r.Code = 200
		return map[string]interface{}{
			"kind": k.Kind + "List", "apiVersion": k.APIVersion(),
			"metadata": map[string]interface{}{"resourceVersion": strconv.FormatInt(s.rv, 10)},
			"items":    items,
		}
	case "create":
		return s.create(r, r.Body)
	case "update":
		return s.update(r)
	case "patch":
		return s.jsonPatch(r)
	case "apply":
		return s.ssaApply(r)
	case "delete":
		return s.delete(r)
	}
	return s.fail(r, 405, "MethodNotAllowed", r.Verb)
}

func (s *Server) checkTypeMeta(r *Request, u *unstructured.Unstructured) interface{} {
	if u.GetAPIVersion() == "" && u.GetKind() == "" {
		// typed clients may omit TypeMeta
		u.SetAPIVersion(r.Kind.APIVersion())
		u.SetKind(r.Kind.Kind)
	}
	if u.GetAPIVersion() != r.Kind.APIVersion() || u.GetKind() != r.Kind.Kind {
		return s.fail(r, 400, "BadRequest", fmt.Sprintf("object %s %s does not match the endpoint %s %s", u.GetAPIVersion(), u.GetKind(), r.Kind.APIVersion(), r.Kind.Kind))
	}
	return nil
}

// pruneNulls drops null-valued map entries recursively, as the API server does for custom resources
// with a structural schema whose fields are not nullable (apiextensions pruning).
func pruneNulls(v interface{}) {
	switch t := v.(type) {
	case map[string]interface{}:
		for k, x := range t {
			if x == nil {
				delete(t, k)
				continue
			}
			pruneNulls(x)
		}
	case []interface{}:
		for _, x := range t {
			pruneNulls(x)
		}
	}
}

func cleanMeta(o map[string]interface{}) {
	pruneNulls(o)
	md, ok := o["metadata"].(map[string]interface{})
	if !ok {
		return
	}
	for _, f := range []string{"creationTimestamp", "deletionTimestamp", "labels", "annotations", "ownerReferences", "finalizers", "managedFields"} {
		if v, present := md[f]; present && v == nil {
			delete(md, f)
		}
	}
	delete(md, "managedFields")
	for _, f := range []string{"labels", "annotations"} {
		if m, ok := md[f].(map[string]interface{}); ok && len(m) == 0 {
			delete(md, f)
		}
	}
	for _, f := range []string{"ownerReferences", "finalizers"} {
		if l, ok := md[f].([]interface{}); ok && len(l) == 0 {
			delete(md, f)
		}
	}
}

func (s *Server) metaShape(r *Request, o map[string]interface{}) interface{} {
	// metadata must decode into ObjectMeta; a real server rejects anything else with 400/422.
	md, ok := o["metadata"]
	if !ok {
		o["metadata"] = map[string]interface{}{}
		return nil
	}
	mdm, ok := md.(map[string]interface{})
	if !ok {
		return s.fail(r, 400, "BadRequest", "metadata is not an object")
	}
	b, _ := json.Marshal(mdm)
	var om metav1.ObjectMeta
	if err := json.Unmarshal(b, &om); err != nil {
		return s.fail(r, 400, "BadRequest", "metadata does not decode: "+err.Error())
	}
	return nil
}

func (s *Server) create(r *Request, body map[string]interface{}) interface{} {
	k := r.Kind
	if body == nil {
		return s.fail(r, 400, "BadRequest", "empty body")
	}
	o := runtime.DeepCopyJSON(body)
	if e := s.metaShape(r, o); e != nil {
		return e
	}
	cleanMeta(o)
	u := &unstructured.Unstructured{Object: o}
	if e := s.checkTypeMeta(r, u); e != nil {
		return e
	}
	if k.Namespaced {
		if u.GetNamespace() == "" {
			u.SetNamespace(r.NS)
		} else if u.GetNamespace() != r.NS {
			return s.fail(r, 400, "BadRequest", "the namespace of the provided object does not match the namespace sent on the request")
		}
	} else if u.GetNamespace() != "" {
		return s.fail(r, 400, "BadRequest", "namespace set on cluster-scoped object")
	}
	if u.GetName() == "" {
		return s.fail(r, 422, "Invalid", "metadata.name: Required value")
	}
	r.Name = u.GetName()
	key := objKey(k, r.NS, r.Name)
	if old := s.objs[key]; old != nil {
		r.Pre = runtime.DeepCopyJSON(old)
		return s.fail(r, 409, "AlreadyExists", "already exists")
	}
	if u.GetResourceVersion() != "" {
		// etcd3 store: "resourceVersion should not be set on objects to be created" (surfaces as 500)
		return s.fail(r, 500, "InternalError", "resourceVersion should not be set on objects to be created")
	}
	// server-populated fields are ignored on create
	unstructured.RemoveNestedField(o, "metadata", "uid")
	unstructured.RemoveNestedField(o, "metadata", "generation")
	unstructured.RemoveNestedField(o, "metadata", "deletionTimestamp")
	unstructured.RemoveNestedField(o, "metadata", "deletionGracePeriodSeconds")
	unstructured.RemoveNestedField(o, "metadata", "selfLink")
	if k.StatusSub {
		delete(o, "status")
	}
	if errs := apivalidation.ValidateObjectMetaAccessor(u, k.Namespaced, apivalidation.NameIsDNSSubdomain, field.NewPath("metadata")); len(errs) > 0 {
		return s.fail(r, 422, "Invalid", errs.ToAggregate().Error())
	}
	s.stamp(u, true)
	if k.NoGeneration {
		unstructured.RemoveNestedField(o, "metadata", "generation")
	}
	s.objs[key] = o
	r.Code = 201
	return runtime.DeepCopyJSON(o)
}

func stripForCompare(k *Kind, o map[string]interface{}) map[string]interface{} {
	c := runtime.DeepCopyJSON(o)
	delete(c, "metadata")
	if k.StatusSub {
		delete(c, "status")
	}
	return c
}

// commitUpdate stores n in place of old, handling generation, no-op detection and finalization.
// Returns the stored object (nil if the object was removed).
func (s *Server) commitUpdate(k *Kind, key string, old, n map[string]interface{}, sub string) map[string]interface{} {
	cleanMeta(n)
	nu := &unstructured.Unstructured{Object: n}
	ou := &unstructured.Unstructured{Object: old}
	nu.SetResourceVersion(ou.GetResourceVersion())
	if sub == "" && !reflect.DeepEqual(stripForCompare(k, old), stripForCompare(k, n)) {
		nu.SetGeneration(ou.GetGeneration() + 1)
	} else {
		nu.SetGeneration(ou.GetGeneration())
	}
	if k.NoGeneration {
		unstructured.RemoveNestedField(n, "metadata", "generation")
	}
	if reflect.DeepEqual(old, n) {
		return old // no-op: no resourceVersion bump, no event
	}
	if nu.GetDeletionTimestamp() != nil && len(nu.GetFinalizers()) == 0 {
		delete(s.objs, key)
		s.dropSSA(key)
		s.rv++
		return nil
	}
	s.stamp(nu, false)
	s.objs[key] = n
	return n
}

func (s *Server) update(r *Request) interface{} {
	k := r.Kind
	key := objKey(k, r.NS, r.Name)
	old := s.objs[key]
	if r.Body == nil {
		return s.fail(r, 400, "BadRequest", "empty body")
	}
	n := runtime.DeepCopyJSON(r.Body)
	if e := s.metaShape(r, n); e != nil {
		return e
	}
	nu := &unstructured.Unstructured{Object: n}
	if e := s.checkTypeMeta(r, nu); e != nil {
		return e
	}
	if nu.GetName() != r.Name {
		return s.fail(r, 400, "BadRequest", "the name of the object does not match the name on the URL")
	}
	if k.Namespaced && nu.GetNamespace() != "" && nu.GetNamespace() != r.NS {
		return s.fail(r, 400, "BadRequest", "the namespace of the provided object does not match the namespace sent on the request")
	}
	if old == nil {
		return s.fail(r, 404, "NotFound", "not found")
	}
	return s.updateFrom(r, old, n)
}

// updateFrom validates and commits n as the replacement of old (shared by PUT and PATCH).
func (s *Server) updateFrom(r *Request, old, n map[string]interface{}) interface{} {
	k := r.Kind
	key := objKey(k, r.NS, r.Name)
	ou := &unstructured.Unstructured{Object: old}
	nu := &unstructured.Unstructured{Object: n}
	if k.Namespaced && nu.GetNamespace() == "" {
		nu.SetNamespace(r.NS)
	}
	if rv := nu.GetResourceVersion(); rv != "" && rv != ou.GetResourceVersion() {
		return s.fail(r, 409, "Conflict", "the object has been modified; please apply your changes to the latest version and try again")
	}
	if uid := nu.GetUID(); uid != "" && uid != ou.GetUID() {
		return s.fail(r, 409, "Conflict", fmt.Sprintf("Precondition failed: UID in precondition: %v, UID in object meta: %v", uid, ou.GetUID()))
	}
	if r.Sub == "status" {
		// only status is taken from the request
		st, has := n["status"]
		n = runtime.DeepCopyJSON(old)
		if has && st != nil {
			n["status"] = st
		} else {
			delete(n, "status")
		}
		nu = &unstructured.Unstructured{Object: n}
	} else {
		if k.StatusSub {
			if st, has := old["status"]; has {
				n["status"] = runtime.DeepCopyJSONValue(st)
			} else {
				delete(n, "status")
			}
		}
		cleanMeta(n)
		// system fields the client cannot change
		nu.SetUID(ou.GetUID())
		_ = unstructured.SetNestedField(n, nestedString(old, "metadata", "creationTimestamp"), "metadata", "creationTimestamp")
		unstructured.RemoveNestedField(n, "metadata", "selfLink")
		if dt, ok, _ := unstructured.NestedString(old, "metadata", "deletionTimestamp"); ok {
			_ = unstructured.SetNestedField(n, dt, "metadata", "deletionTimestamp")
		} else {
			unstructured.RemoveNestedField(n, "metadata", "deletionTimestamp")
		}
		nu.SetResourceVersion(ou.GetResourceVersion())
		nu.SetGeneration(ou.GetGeneration())
		if errs := apivalidation.ValidateObjectMetaAccessorUpdate(nu, ou, field.NewPath("metadata")); len(errs) > 0 {
			return s.fail(r, 422, "Invalid", errs.ToAggregate().Error())
		}
		if errs := apivalidation.ValidateObjectMetaAccessor(nu, k.Namespaced, apivalidation.NameIsDNSSubdomain, field.NewPath("metadata")); len(errs) > 0 {
			return s.fail(r, 422, "Invalid", errs.ToAggregate().Error())
		}
	}
	stored := s.commitUpdate(k, key, old, n, r.Sub)
	r.Code = 200
	if stored == nil {
		return runtime.DeepCopyJSON(n)
	}
	return runtime.DeepCopyJSON(stored)
}

func (s *Server) jsonPatch(r *Request) interface{} {
	key := objKey(r.Kind, r.NS, r.Name)
	old := s.objs[key]
	if old == nil {
		return s.fail(r, 404, "NotFound", "not found")
	}
	patch, err := jsonpatch.DecodePatch(r.RawBody)
	if err != nil {
		return s.fail(r, 400, "BadRequest", "cannot decode json patch: "+err.Error())
	}
	ob, _ := json.Marshal(old)
	nb, err := patch.Apply(ob)
	if err != nil {
		return s.fail(r, 422, "Invalid", "json patch failed: "+err.Error())
	}
	n := map[string]interface{}{}
	if err := json.Unmarshal(nb, &n); err != nil {
		return s.fail(r, 422, "Invalid", err.Error())
	}
	if e := s.metaShape(r, n); e != nil {
		return e
	}
	return s.updateFrom(r, old, n)
}

// leaves flattens an applied configuration: maps recurse, everything else (scalars, lists) is atomic.
func leaves(prefix []string, v interface{}, out map[string][]string) {
	if m, ok := v.(map[string]interface{}); ok && len(m) > 0 {
		for k, vv := range m {
			leaves(append(append([]string{}, prefix...), k), vv, out)
		}
		return
	}
	out[strings.Join(prefix, "\x00")] = prefix
}

func (s *Server) dropSSA(key string) {
	for k := range s.ssa {
		if strings.HasPrefix(k, key+"#") {
			delete(s.ssa, k)
		}
	}
}

func (s *Server) ssaApply(r *Request) interface{} {
	k := r.Kind
	key := objKey(k, r.NS, r.Name)
	mgr := r.Query.Get("fieldManager")
	if mgr == "" {
		return s.fail(r, 400, "BadRequest", "PatchOptions.meta.k8s.io is invalid: fieldManager: Required value: is required for apply patch")
	}
	if r.Body == nil {
		return s.fail(r, 400, "BadRequest", "empty apply configuration")
	}
	cfg := runtime.DeepCopyJSON(r.Body)
	if e := s.metaShape(r, cfg); e != nil {
		return e
	}
	cu := &unstructured.Unstructured{Object: cfg}
	if cu.GetAPIVersion() != k.APIVersion() || cu.GetKind() != k.Kind {
		return s.fail(r, 400, "BadRequest", "apiVersion/kind of the apply configuration do not match the endpoint")
	}
	if cu.GetName() != "" && cu.GetName() != r.Name {
		return s.fail(r, 400, "BadRequest", "name in the apply configuration does not match the URL")
	}
	if _, has, _ := unstructured.NestedFieldNoCopy(cfg, "metadata", "managedFields"); has {
		return s.fail(r, 400, "BadRequest", "metadata.managedFields must be nil")
	}
	// the applied configuration as remembered for this manager (identity fields excluded)
	applied := runtime.DeepCopyJSON(cfg)
	delete(applied, "apiVersion")
	delete(applied, "kind")
	unstructured.RemoveNestedField(applied, "metadata", "name")
	unstructured.RemoveNestedField(applied, "metadata", "namespace")
	if k.StatusSub && r.Sub == "" {
		delete(applied, "status")
	}
	if md, ok := applied["metadata"].(map[string]interface{}); ok && len(md) == 0 {
		delete(applied, "metadata")
	}
	old := s.objs[key]
	if old == nil {
		body := runtime.DeepCopyJSON(cfg)
		(&unstructured.Unstructured{Object: body}).SetName(r.Name)
		out := s.create(r, body)
		if r.Code == 201 {
			s.ssa[key+"#"+mgr] = applied
			r.Code = 201
		}
		return out
	}
	if uid := cu.GetUID(); uid != "" && string(uid) != nestedString(old, "metadata", "uid") {
		return s.fail(r, 409, "Conflict", "uid mismatch: the provided object specified uid "+string(uid))
	}
	n := runtime.DeepCopyJSON(old)
	prevLeaves := map[string][]string{}
	if prev := s.ssa[key+"#"+mgr]; prev != nil {
		leaves(nil, prev, prevLeaves)
	}
	newLeaves := map[string][]string{}
	leaves(nil, applied, newLeaves)
	for id, path := range prevLeaves {
		if _, still := newLeaves[id]; !still {
			// owned before, no longer applied: removed unless some applied leaf lives below it
			below := false
			for nid := range newLeaves {
				if strings.HasPrefix(nid, id+"\x00") {
					below = true
				}
			}
			if !below {
				unstructured.RemoveNestedField(n, path...)
			}
		}
	}
	for _, path := range newLeaves {
		v, _, _ := unstructured.NestedFieldCopy(applied, path...)
		if len(path) == 0 {
			continue
		}
		if err := unstructured.SetNestedField(n, v, path...); err != nil {
			// a scalar sits where the configuration has a map: force replaces it
			for i := 1; i < len(path); i++ {
				if pv, ok, _ := unstructured.NestedFieldNoCopy(n, path[:i]...); ok {
					if _, isMap := pv.(map[string]interface{}); !isMap {
						unstructured.RemoveNestedField(n, path[:i]...)
					}
				}
			}
			if err := unstructured.SetNestedField(n, v, path...); err != nil {
				return s.fail(r, 422, "Invalid", "cannot apply "+strings.Join(path, ".")+": "+err.Error())
			}
		}
	}
	if e := s.metaShape(r, n); e != nil {
		return e
	}
	// resourceVersion in an apply configuration is an optimistic lock like on update
	if rv := cu.GetResourceVersion(); rv != "" {
		(&unstructured.Unstructured{Object: n}).SetResourceVersion(rv)
	} else {
		(&unstructured.Unstructured{Object: n}).SetResourceVersion(nestedString(old, "metadata", "resourceVersion"))
	}
	out := s.updateFrom(r, old, n)
	if r.Code == 200 {
		s.ssa[key+"#"+mgr] = applied
	}
	return out
}

func (s *Server) deleteLocked(k *Kind, key string, old map[string]interface{}, policy string) {
	ou := &unstructured.Unstructured{Object: old}
	n := runtime.DeepCopyJSON(old)
	nu := &unstructured.Unstructured{Object: n}
	fins := ou.GetFinalizers()
	switch policy {
	case "Foreground":
		if !contains(fins, metav1.FinalizerDeleteDependents) {
			fins = append(fins, metav1.FinalizerDeleteDependents)
		}
	case "Orphan":
		if !contains(fins, metav1.FinalizerOrphanDependents) {
			fins = append(fins, metav1.FinalizerOrphanDependents)
		}
	}
	if len(fins) == 0 {
		delete(s.objs, key)
		s.dropSSA(key)
		s.rv++
		return
	}
	nu.SetFinalizers(fins)
	if ou.GetDeletionTimestamp() == nil {
		_ = unstructured.SetNestedField(n, FixedTime, "metadata", "deletionTimestamp")
		_ = unstructured.SetNestedField(n, int64(0), "metadata", "deletionGracePeriodSeconds")
	}
	if reflect.DeepEqual(old, n) {
		return
	}
	s.stamp(nu, false)
	s.objs[key] = n
}

func (s *Server) delete(r *Request) interface{} {
	k := r.Kind
	if r.Name == "" {
		return s.fail(r, 405, "MethodNotAllowed", "deletecollection is not modelled")
	}
	key := objKey(k, r.NS, r.Name)
	old := s.objs[key]
	if old == nil {
		return s.fail(r, 404, "NotFound", "not found")
	}
	policy := "Background"
	if r.Body != nil {
		if p, ok, _ := unstructured.NestedString(r.Body, "propagationPolicy"); ok && p != "" {
			policy = p
		}
		if uid, ok, _ := unstructured.NestedString(r.Body, "preconditions", "uid"); ok && uid != "" && uid != nestedString(old, "metadata", "uid") {
			return s.fail(r, 409, "Conflict", fmt.Sprintf("Precondition failed: UID in precondition: %v, UID in object meta: %v", uid, nestedString(old, "metadata", "uid")))
		}
		if rv, ok, _ := unstructured.NestedString(r.Body, "preconditions", "resourceVersion"); ok && rv != "" && rv != nestedString(old, "metadata", "resourceVersion") {
			return s.fail(r, 409, "Conflict", "Precondition failed: ResourceVersion in precondition")
		}
	}
	s.deleteLocked(k, key, old, policy)
	r.Code = 200
	if cur := s.objs[key]; cur != nil {
		return runtime.DeepCopyJSON(cur)
	}
	return map[string]interface{}{"kind": "Status", "apiVersion": "v1", "metadata": map[string]interface{}{}, "status": "Success",
		"details": map[string]interface{}{"name": r.Name, "group": k.Group, "kind": k.Resource, "uid": nestedString(old, "metadata", "uid")}}
}

func contains(l []string, s string) bool {
	for _, x := range l {
		if x == s {
			return true
		}
	}
	return false
}

func nestedString(o map[string]interface{}, path ...string) string {
	v, _, _ := unstructured.NestedString(o, path...)
	return v
}
