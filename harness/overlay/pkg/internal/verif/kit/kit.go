// Package kit holds the shared scenario vocabulary of the checks (DESIGN.md §3): kinds, object
// builders and small JSON helpers. Pure data helpers only.
package kit

import (
	"sort"

	"k8s.io/apimachinery/pkg/util/json"

	"metacontroller/pkg/internal/verif/sim"
)

type M = map[string]interface{}
type L = []interface{}

var (
	Thing   = &sim.Kind{Group: "ex.io", Version: "v1", Resource: "things", Kind: "Thing", Namespaced: true, StatusSub: true, ScaleSub: true}
	NoThing = &sim.Kind{Group: "ex.io", Version: "v1", Resource: "nothings", Kind: "NoThing", Namespaced: true, StatusSub: false}
	CThing  = &sim.Kind{Group: "ex.io", Version: "v1", Resource: "cthings", Kind: "CThing", Namespaced: false, StatusSub: true}
	Leaf    = &sim.Kind{Group: "", Version: "v1", Resource: "leafs", Kind: "Leaf", Namespaced: true}
	Widget  = &sim.Kind{Group: "apps.ex", Version: "v1", Resource: "widgets", Kind: "Widget", Namespaced: true, StatusSub: true, ScaleSub: true}
	CWidget = &sim.Kind{Group: "apps.ex", Version: "v1", Resource: "cwidgets", Kind: "CWidget", Namespaced: false}
	Other   = &sim.Kind{Group: "", Version: "v1", Resource: "others", Kind: "Other", Namespaced: true}
	Gadget  = &sim.Kind{Group: "apps.ex", Version: "v1", Resource: "gadgets", Kind: "Gadget", Namespaced: true, StatusSub: true}
	// ThingBeta: the parent kind is served in a second, older version as well (same storage; listed FIRST in discovery)
	ThingBeta = &sim.Kind{Group: "ex.io", Version: "v1beta1", Resource: "things", Kind: "Thing", Namespaced: true, StatusSub: true}
	// NoThingBeta: the older served version of nothings DOES have a status subresource (per-version subresources)
	NoThingBeta = &sim.Kind{Group: "ex.io", Version: "v1beta1", Resource: "nothings", Kind: "NoThing", Namespaced: true, StatusSub: true}
	// Dual1 / Dual2: one resource served in two versions whose objects are kept apart (a deliberately conservative
	// model of conversion: mixing the two versions up is then visible as "the wrong objects"). Not in Kinds; used by C18.
	Dual1 = &sim.Kind{Group: "dual.ex", Version: "v1", Resource: "duals", Kind: "Dual", Namespaced: true, StoreKey: "dual.ex|duals@v1"}
	Dual2 = &sim.Kind{Group: "dual.ex", Version: "v2", Resource: "duals", Kind: "Dual", Namespaced: true, StoreKey: "dual.ex|duals@v2"}
	// PlainThing: a parent kind for which the server keeps no metadata.generation (like several built-in kinds)
	PlainThing = &sim.Kind{Group: "ex.io", Version: "v1", Resource: "plainthings", Kind: "PlainThing", Namespaced: true, StatusSub: true, NoGeneration: true, SubFirst: true}
	// CoreWidget: a second resource with the SAME Kind and the SAME plural name as Widget, in the core group
	// (like v1 Service and serving.knative.dev/v1 Service): whatever identifies a child type by its kind alone,
	// or treats the empty group as "any group", confuses the two
	CoreWidget = &sim.Kind{Group: "", Version: "v1", Resource: "widgets", Kind: "Widget", Namespaced: true, StatusSub: true}
	Kinds      = []*sim.Kind{ThingBeta, NoThingBeta, Thing, NoThing, CThing, Leaf, Widget, CWidget, Other, Gadget, PlainThing, CoreWidget}
)

const LastApplied = "metacontroller.k8s.io/last-applied-configuration"

func Obj(k *sim.Kind, ns, name string) M {
	md := M{"name": name}
	if k.Namespaced && ns != "" {
		md["namespace"] = ns
	}
	return M{"apiVersion": k.APIVersion(), "kind": k.Kind, "metadata": md}
}

func sub(o M, key string) M {
	md := o["metadata"].(M)
	l, _ := md[key].(M)
	if l == nil {
		l = M{}
		md[key] = l
	}
	return l
}

func Labels(o M, kv ...string) M {
	l := sub(o, "labels")
	for i := 0; i+1 < len(kv); i += 2 {
		l[kv[i]] = kv[i+1]
	}
	return o
}

func Ann(o M, kv ...string) M {
	l := sub(o, "annotations")
	for i := 0; i+1 < len(kv); i += 2 {
		l[kv[i]] = kv[i+1]
	}
	return o
}

// Field sets a nested field (creating intermediate maps).
func Field(o M, v interface{}, path ...string) M {
	m := o
	for _, p := range path[:len(path)-1] {
		n, _ := m[p].(M)
		if n == nil {
			n = M{}
			m[p] = n
		}
		m = n
	}
	m[path[len(path)-1]] = v
	return o
}

func OwnerRef(k *sim.Kind, name, uid string, controller bool) M {
	r := M{"apiVersion": k.APIVersion(), "kind": k.Kind, "name": name, "uid": uid}
	if controller {
		r["controller"] = true
		r["blockOwnerDeletion"] = true
	}
	return r
}

func Owners(o M, refs ...M) M {
	md := o["metadata"].(M)
	var l L
	for _, r := range refs {
		l = append(l, r)
	}
	md["ownerReferences"] = l
	return o
}

func Finalizers(o M, f ...string) M {
	md := o["metadata"].(M)
	var l L
	for _, x := range f {
		l = append(l, x)
	}
	md["finalizers"] = l
	return o
}

func Deleting(o M) M {
	md := o["metadata"].(M)
	md["deletionTimestamp"] = sim.FixedTime
	return o
}

// WithLastApplied records la as the last-applied configuration of o.
func WithLastApplied(o M, la M) M {
	b, _ := json.Marshal(la)
	return Ann(o, LastApplied, string(b))
}

// Get walks a nested path; nil if absent.
func Get(o interface{}, path ...string) interface{} {
	cur := o
	for _, p := range path {
		m, ok := cur.(M)
		if !ok {
			return nil
		}
		cur = m[p]
	}
	return cur
}

func Str(o interface{}, path ...string) string {
	s, _ := Get(o, path...).(string)
	return s
}

func Map(o interface{}, path ...string) M {
	m, _ := Get(o, path...).(M)
	return m
}

func List(o interface{}, path ...string) L {
	l, _ := Get(o, path...).(L)
	return l
}

func UID(o M) string  { return Str(o, "metadata", "uid") }
func Name(o M) string { return Str(o, "metadata", "name") }
func NS(o M) string   { return Str(o, "metadata", "namespace") }

// ControllerUID returns the UID of the controller owner reference ("" if none).
func ControllerUID(o M) string {
	for _, r := range List(o, "metadata", "ownerReferences") {
		rm, _ := r.(M)
		if c, _ := rm["controller"].(bool); c {
			u, _ := rm["uid"].(string)
			return u
		}
	}
	return ""
}

func HasFinalizer(o M, f string) bool {
	for _, x := range List(o, "metadata", "finalizers") {
		if x == f {
			return true
		}
	}
	return false
}

// Copy deep-copies via JSON (numbers become int64/float64 as the k8s decoder does).
func Copy(o M) M {
	b, _ := json.Marshal(o)
	out := M{}
	_ = json.Unmarshal(b, &out)
	return out
}

func JSON(v interface{}) string {
	b, _ := json.Marshal(v)
	return string(b)
}

func SortedKeys(m M) []string {
	k := make([]string, 0, len(m))
	for x := range m {
		k = append(k, x)
	}
	sort.Strings(k)
	return k
}

// ---------------------------------------------------------------------------------------------
// JSON tree mutation (C13 grammar): every node of a valid response replaced by every JSON type.

// Path addresses a node: string = map key, int = list index.
type Path []interface{}

func (p Path) String() string {
	s := ""
	for _, e := range p {
		switch t := e.(type) {
		case string:
			s += "." + t
		case int:
			s += "[" + itoa(t) + "]"
		}
	}
	if s == "" {
		return "."
	}
	return s
}

func itoa(i int) string {
	if i == 0 {
		return "0"
	}
	s := ""
	for i > 0 {
		s = string(rune('0'+i%10)) + s
		i /= 10
	}
	return s
}

// Paths lists every node of the tree below the root (pre-order, deterministic).
func Paths(tree interface{}) []Path {
	var out []Path
	var walk func(v interface{}, p Path)
	walk = func(v interface{}, p Path) {
		switch t := v.(type) {
		case M:
			for _, k := range SortedKeys(t) {
				np := append(append(Path{}, p...), k)
				out = append(out, np)
				walk(t[k], np)
			}
		case L:
			for i := range t {
				np := append(append(Path{}, p...), i)
				out = append(out, np)
				walk(t[i], np)
			}
		}
	}
	walk(tree, nil)
	return out
}

// Raw is a literal JSON fragment (lets the grammar emit numbers no Go type holds, e.g. 1e400).
type Raw string

func (r Raw) MarshalJSON() ([]byte, error) { return []byte(r), nil }

// Missing, as a replacement, removes the node.
const Missing = Raw("\x00missing")

// Replacements is the C13 value alphabet.
var Replacements = []Raw{Missing, "null", "true", "0", "-1", "1e400", "9223372036854775808", `"s"`, "[]", "[null]", "[null,null]", "{}", `{"x":null}`}

func deepCopyTree(v interface{}) interface{} {
	switch t := v.(type) {
	case M:
		c := M{}
		for k, x := range t {
			c[k] = deepCopyTree(x)
		}
		return c
	case L:
		c := make(L, len(t))
		for i, x := range t {
			c[i] = deepCopyTree(x)
		}
		return c
	}
	return v
}

// Mutate returns a copy of tree with the node at p replaced (or removed). ok=false if p no longer exists
// (used when applying a second mutation after a first one removed the subtree).
func Mutate(tree interface{}, p Path, r Raw) (interface{}, bool) {
	c := deepCopyTree(tree)
	if len(p) == 0 {
		return c, false
	}
	cur := c
	var parent interface{}
	var parentKey interface{}
	for i, e := range p[:len(p)-1] {
		_ = i
		switch k := e.(type) {
		case string:
			m, ok := cur.(M)
			if !ok {
				return c, false
			}
			nx, ok := m[k]
			if !ok {
				return c, false
			}
			parent, parentKey, cur = m, k, nx
		case int:
			l, ok := cur.(L)
			if !ok || k >= len(l) {
				return c, false
			}
			parent, parentKey, cur = l, k, l[k]
		}
	}
	switch k := p[len(p)-1].(type) {
	case string:
		m, ok := cur.(M)
		if !ok {
			return c, false
		}
		if _, ok := m[k]; !ok {
			return c, false
		}
		if r == Missing {
			delete(m, k)
		} else {
			m[k] = r
		}
	case int:
		l, ok := cur.(L)
		if !ok || k >= len(l) {
			return c, false
		}
		if r == Missing {
			nl := append(append(L{}, l[:k]...), l[k+1:]...)
			switch pk := parentKey.(type) {
			case string:
				parent.(M)[pk] = nl
			case int:
				parent.(L)[pk] = nl
			default:
				return nl, true // the root itself is the list
			}
		} else {
			l[k] = r
		}
	}
	return c, true
}
