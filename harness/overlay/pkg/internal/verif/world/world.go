// Package world assembles the closed system the checks explore: the simulated API server, the real
// discovery map, the real dynamic clientset and generated clientset on top of it, the real shared
// informer factory (built against vcache), a controlled ControllerRevision lister, the hook router, a
// recording work queue and a recording event recorder (DESIGN.md §2.2-§2.4).
package world

import (
	"bytes"
	"fmt"
	"io"
	"net/http"
	"sort"
	"strings"
	"sync"
	"time"

	metav1 "k8s.io/apimachinery/pkg/apis/meta/v1"
	"k8s.io/apimachinery/pkg/apis/meta/v1/unstructured"
	"k8s.io/apimachinery/pkg/runtime"
	"k8s.io/apimachinery/pkg/runtime/schema"
	"k8s.io/apimachinery/pkg/util/json"
	utilruntime "k8s.io/apimachinery/pkg/util/runtime"
	"k8s.io/client-go/discovery"
	fakediscovery "k8s.io/client-go/discovery/fake"
	"k8s.io/client-go/dynamic"
	"k8s.io/client-go/rest"
	clienttesting "k8s.io/client-go/testing"
	"k8s.io/client-go/tools/cache"
	"k8s.io/klog/v2"

	"metacontroller/pkg/apis/metacontroller/v1alpha1"
	mcclientset "metacontroller/pkg/client/generated/clientset/internalclientset"
	mcscheme "metacontroller/pkg/client/generated/clientset/internalclientset/scheme"
	mclisters "metacontroller/pkg/client/generated/lister/metacontroller/v1alpha1"
	"metacontroller/pkg/controller/common"
	dynamicclientset "metacontroller/pkg/dynamic/clientset"
	dynamicdiscovery "metacontroller/pkg/dynamic/discovery"
	dynamicinformer "metacontroller/pkg/dynamic/informer"
	"metacontroller/pkg/internal/verif/sim"
	"metacontroller/pkg/internal/verif/vcache"
)

// RevisionKind is the ControllerRevision resource as served by the sim.
var RevisionKind = &sim.Kind{Group: "metacontroller.k8s.io", Version: "v1alpha1", Resource: "controllerrevisions", Kind: "ControllerRevision", Namespaced: true}

var quietOnce sync.Once

// Quiet silences the process-global log sinks and the rate-limited error handler.
func Quiet() {
	quietOnce.Do(func() {
		klog.SetOutput(io.Discard)
		klog.LogToStderr(false)
		utilruntime.ErrorHandlers = nil
	})
}

type Base struct {
	Sim        *sim.Server
	Discovery  discovery.DiscoveryInterface
	Resources  *dynamicdiscovery.ResourceMap
	Dyn        dynamic.Interface
	DynClient  *dynamicclientset.Clientset
	Factory    *dynamicinformer.SharedInformerFactory
	McClient   mcclientset.Interface
	RevIndexer cache.Indexer
	RevLister  mclisters.ControllerRevisionLister
	Hooks      *HookRouter
	Rec        *Recorder
}

// NewBase builds a fresh world over the given kinds (+ ControllerRevision). One live world per process:
// it resets the vcache registry and replaces http.DefaultTransport.
func NewBase(relist time.Duration, kinds ...*sim.Kind) *Base {
	Quiet()
	vcache.Reset()
	vcache.ResetTracked()
	common.VerifResetSSAMemo()
	all := append(append([]*sim.Kind{}, kinds...), RevisionKind)
	s := sim.New(all...)
	b := &Base{Sim: s, Hooks: NewHookRouter(), Rec: &Recorder{}}
	http.DefaultTransport = b.Hooks

	fd := &fakediscovery.FakeDiscovery{Fake: &clienttesting.Fake{}}
	fd.Resources = s.Discovery()
	b.Discovery = fd
	b.Resources = dynamicdiscovery.NewResourceMap(fd)
	b.Resources.VerifRefresh()

	cfg := &rest.Config{Host: "http://" + sim.Host, QPS: -1}
	hc := &http.Client{Transport: s}
	dyn, err := dynamic.NewForConfigAndClient(cfg, hc)
	if err != nil {
		panic(err)
	}
	b.Dyn = dyn
	b.DynClient = dynamicclientset.NewClientset(cfg, b.Resources, dyn)
	b.Factory = dynamicinformer.NewSharedInformerFactory(b.DynClient, relist)
	mcc, err := mcclientset.NewForConfigAndClient(cfg, hc)
	if err != nil {
		panic(err)
	}
	b.McClient = mcc
	b.RevIndexer = cache.NewIndexer(cache.MetaNamespaceKeyFunc, cache.Indexers{cache.NamespaceIndex: cache.MetaNamespaceIndexFunc})
	b.RevLister = mclisters.NewControllerRevisionLister(b.RevIndexer)
	vcache.TrackIndexer(b.RevIndexer)
	return b
}

// Informer returns the vcache informer the factory currently runs for a resource (nil if none).
func (b *Base) Informer(k *sim.Kind) *vcache.Informer {
	return b.Factory.VerifInformers()[k.Resource+"."+k.APIVersion()]
}

// DecodeUnstructured passes a stored object through the decoder a reflector uses.
func DecodeUnstructured(o map[string]interface{}) *unstructured.Unstructured {
	raw, err := json.Marshal(o)
	if err != nil {
		panic(err)
	}
	obj, _, err := unstructured.UnstructuredJSONScheme.Decode(raw, nil, nil)
	if err != nil {
		panic(err)
	}
	return obj.(*unstructured.Unstructured)
}

// DecodeRevision passes a stored ControllerRevision through the typed client's decoder.
func DecodeRevision(o map[string]interface{}) *v1alpha1.ControllerRevision {
	raw, err := json.Marshal(o)
	if err != nil {
		panic(err)
	}
	obj, _, err := mcscheme.Codecs.UniversalDeserializer().Decode(raw, nil, nil)
	if err != nil {
		panic(err)
	}
	cr := obj.(*v1alpha1.ControllerRevision)
	// typed clients hand out objects without TypeMeta (WithoutVersionDecoder)
	cr.GetObjectKind().SetGroupVersionKind(schema.GroupVersionKind{})
	return cr
}

func cacheKey(o map[string]interface{}) string {
	md, _ := o["metadata"].(map[string]interface{})
	ns, _ := md["namespace"].(string)
	name, _ := md["name"].(string)
	if ns == "" {
		return name
	}
	return ns + "/" + name
}

func rvOf(o interface{}) string {
	switch t := o.(type) {
	case *unstructured.Unstructured:
		return t.GetResourceVersion()
	case metav1.Object:
		return t.GetResourceVersion()
	}
	return ""
}

// Deliver brings the cache entry ns/name of kind k in line with the store (add, update or delete)
// and synchronously fans the event out. tombstone turns a delete into DeletedFinalStateUnknown.
// Returns what happened: "add", "update", "delete", "" (nothing to do / no informer).
func (b *Base) Deliver(k *sim.Kind, ns, name string, tombstone bool) string {
	key := name
	if ns != "" {
		key = ns + "/" + name
	}
	stored := b.Sim.Get(k, ns, name)
	if k == RevisionKind {
		old, exists, _ := b.RevIndexer.GetByKey(key)
		switch {
		case stored == nil && exists:
			_ = b.RevIndexer.Delete(old)
			return "delete"
		case stored != nil && (!exists || rvOf(old) != nestedRV(stored)):
			_ = b.RevIndexer.Add(DecodeRevision(stored)) // Add replaces
			if exists {
				return "update"
			}
			return "add"
		}
		return ""
	}
	inf := b.Informer(k)
	if inf == nil {
		return ""
	}
	old, exists, _ := inf.GetIndexer().GetByKey(key)
	switch {
	case stored == nil && exists:
		inf.Delete(key, tombstone)
		return "delete"
	case stored != nil && !exists:
		inf.Set(DecodeUnstructured(stored))
		return "add"
	case stored != nil && rvOf(old) != nestedRV(stored):
		inf.Set(DecodeUnstructured(stored))
		return "update"
	}
	return ""
}

func nestedRV(o map[string]interface{}) string {
	md, _ := o["metadata"].(map[string]interface{})
	rv, _ := md["resourceVersion"].(string)
	return rv
}

// Stale lists "resource ns/name" of every cache entry that differs from the store, for all kinds that
// have an informer (and revisions), sorted.
func (b *Base) Stale() []StaleEntry {
	var out []StaleEntry
	for _, k := range b.Sim.Kinds() {
		var ix cache.Indexer
		if k == RevisionKind {
			ix = b.RevIndexer
		} else if inf := b.Informer(k); inf != nil {
			ix = inf.GetIndexer()
		} else {
			continue
		}
		seen := map[string]bool{}
		for _, o := range b.Sim.All(k) {
			key := cacheKey(o)
			seen[key] = true
			old, exists, _ := ix.GetByKey(key)
			if !exists || rvOf(old) != nestedRV(o) {
				md := o["metadata"].(map[string]interface{})
				ns, _ := md["namespace"].(string)
				out = append(out, StaleEntry{k, ns, md["name"].(string)})
			}
		}
		keys := ix.ListKeys()
		sort.Strings(keys)
		for _, key := range keys {
			if !seen[key] {
				ns, name, _ := cache.SplitMetaNamespaceKey(key)
				out = append(out, StaleEntry{k, ns, name})
			}
		}
	}
	return out
}

type StaleEntry struct {
	Kind     *sim.Kind
	NS, Name string
}

func (e StaleEntry) String() string { return e.Kind.Resource + " " + e.NS + "/" + e.Name }

// DeliverAll brings every cache in line with the store; returns the number of events delivered.
func (b *Base) DeliverAll() int {
	n := 0
	for _, e := range b.Stale() {
		if b.Deliver(e.Kind, e.NS, e.Name, false) != "" {
			n++
		}
	}
	return n
}

// Snap is a restorable image of the whole environment: store and every cache. Cached objects are
// shared by pointer between snapshots - they are immutable by contract, which the fingerprint oracle
// verifies around every sync.
type Snap struct {
	Store  *sim.Snap
	Caches map[*sim.Kind][]interface{}
	Revs   []interface{}
}

func (b *Base) Snapshot() *Snap {
	s := &Snap{Store: b.Sim.Snapshot(), Caches: map[*sim.Kind][]interface{}{}, Revs: b.RevIndexer.List()}
	for _, k := range b.Sim.Kinds() {
		if inf := b.Informer(k); inf != nil {
			s.Caches[k] = inf.GetIndexer().List()
		}
	}
	return s
}

func (b *Base) Restore(s *Snap) {
	b.Sim.Restore(s.Store)
	b.Sim.ResetLog()
	for _, k := range b.Sim.Kinds() {
		if inf := b.Informer(k); inf != nil {
			inf.ReplaceSilently(s.Caches[k])
		}
	}
	_ = b.RevIndexer.Replace(s.Revs, "")
}

// CacheDump returns canonical JSON of all cache contents (for canonical forms and oracles).
func (b *Base) CacheDump() string {
	var parts []string
	for _, k := range b.Sim.Kinds() {
		var ix cache.Indexer
		if k == RevisionKind {
			ix = b.RevIndexer
		} else if inf := b.Informer(k); inf != nil {
			ix = inf.GetIndexer()
		} else {
			continue
		}
		keys := ix.ListKeys()
		sort.Strings(keys)
		for _, key := range keys {
			o, _, _ := ix.GetByKey(key)
			raw, _ := json.Marshal(o)
			parts = append(parts, k.Resource+" "+key+" "+string(raw))
		}
	}
	return strings.Join(parts, "\n")
}

// ---------------------------------------------------------------------------------------------
// Hook router.

type HookCall struct {
	Seq    int
	URL    string
	Path   string
	Header http.Header
	Body   []byte
	Parsed map[string]interface{}
	// answer
	Status  int
	RespHdr http.Header
	Resp    []byte
	Err     error
}

// HookFunc answers a hook call: HTTP status, headers, body; a non-nil error fails the round trip.
type HookFunc func(c *HookCall) (int, http.Header, []byte, error)

type HookRouter struct {
	mu       sync.Mutex
	Handlers map[string]HookFunc // by URL path
	Calls    []*HookCall
	// Gate, if set, is called before ("arrive") and after ("release") the handler, without the mutex.
	Gate func(phase string, c *HookCall)
}

func NewHookRouter() *HookRouter { return &HookRouter{Handlers: map[string]HookFunc{}} }

const HookHost = "hook.invalid"

// URL returns the hook URL for a path handled by this router.
func URL(path string) *string {
	u := "http://" + HookHost + path
	return &u
}

func (h *HookRouter) Handle(path string, f HookFunc) {
	h.mu.Lock()
	defer h.mu.Unlock()
	h.Handlers[path] = f
}

// JSON wraps a pure function over the parsed request into a HookFunc answering 200.
func JSON(f func(req map[string]interface{}) interface{}) HookFunc {
	return func(c *HookCall) (int, http.Header, []byte, error) {
		out := f(c.Parsed)
		b, err := json.Marshal(out)
		if err != nil {
			panic(err)
		}
		return 200, nil, b, nil
	}
}

// Lock / Unlock guard Calls for harnesses that read it while workers are running.
func (h *HookRouter) Lock()   { h.mu.Lock() }
func (h *HookRouter) Unlock() { h.mu.Unlock() }

func (h *HookRouter) Reset() {
	h.mu.Lock()
	defer h.mu.Unlock()
	h.Calls = nil
}

func (h *HookRouter) RoundTrip(req *http.Request) (*http.Response, error) {
	var body []byte
	if req.Body != nil {
		body, _ = io.ReadAll(req.Body)
		req.Body.Close()
	}
	c := &HookCall{URL: req.URL.String(), Path: req.URL.Path, Header: req.Header.Clone(), Body: body}
	if len(body) > 0 {
		m := map[string]interface{}{}
		if err := json.Unmarshal(body, &m); err == nil {
			c.Parsed = m
		}
	}
	h.mu.Lock()
	c.Seq = len(h.Calls)
	h.Calls = append(h.Calls, c)
	f := h.Handlers[req.URL.Path]
	gate := h.Gate
	h.mu.Unlock()
	if gate != nil {
		gate("arrive", c)
	}
	if f == nil {
		c.Status, c.Resp = 404, []byte("no such hook")
	} else {
		c.Status, c.RespHdr, c.Resp, c.Err = f(c)
	}
	if gate != nil {
		gate("release", c)
	}
	if c.Err != nil {
		return nil, c.Err
	}
	hdr := http.Header{}
	for k, v := range c.RespHdr {
		hdr[k] = v
	}
	return &http.Response{
		StatusCode: c.Status, Status: fmt.Sprintf("%d %s", c.Status, http.StatusText(c.Status)),
		Proto: "HTTP/1.1", ProtoMajor: 1, ProtoMinor: 1, Header: hdr,
		Body: io.NopCloser(bytes.NewReader(c.Resp)), ContentLength: int64(len(c.Resp)), Request: req,
	}, nil
}

// ---------------------------------------------------------------------------------------------
// Event recorder.

type Recorder struct {
	mu     sync.Mutex
	Events []string
}

func (r *Recorder) add(s string) {
	r.mu.Lock()
	defer r.mu.Unlock()
	if len(r.Events) < 64 {
		r.Events = append(r.Events, s)
	}
}
func (r *Recorder) Event(_ runtime.Object, t, reason, msg string) {
	r.add(t + " " + reason + " " + msg)
}
func (r *Recorder) Eventf(_ runtime.Object, t, reason, f string, a ...interface{}) {
	r.add(t + " " + reason + " " + fmt.Sprintf(f, a...))
}
func (r *Recorder) AnnotatedEventf(_ runtime.Object, _ map[string]string, t, reason, f string, a ...interface{}) {
	r.add(t + " " + reason + " " + fmt.Sprintf(f, a...))
}

// ---------------------------------------------------------------------------------------------
// Recording work queue (workqueue.TypedRateLimitingInterface[any]).

type QueueOp struct {
	Op    string // Add AddAfter AddRateLimited Forget Done Get ShutDown
	Key   string
	Delay time.Duration
}

type RecQueue struct {
	mu       sync.Mutex
	items    []string
	Ops      []QueueOp
	Shut     bool
	requeues map[string]int
}

func NewRecQueue() *RecQueue { return &RecQueue{requeues: map[string]int{}} }

func (q *RecQueue) rec(op string, item interface{}, d time.Duration) string {
	k := fmt.Sprint(item)
	q.Ops = append(q.Ops, QueueOp{op, k, d})
	return k
}

func (q *RecQueue) push(k string) {
	for _, it := range q.items {
		if it == k {
			return
		}
	}
	q.items = append(q.items, k)
}

func (q *RecQueue) Add(item interface{}) {
	q.mu.Lock()
	defer q.mu.Unlock()
	k := q.rec("Add", item, 0)
	if !q.Shut {
		q.push(k)
	}
}
func (q *RecQueue) AddAfter(item interface{}, d time.Duration) {
	q.mu.Lock()
	defer q.mu.Unlock()
	q.rec("AddAfter", item, d)
}
func (q *RecQueue) AddRateLimited(item interface{}) {
	q.mu.Lock()
	defer q.mu.Unlock()
	k := q.rec("AddRateLimited", item, 0)
	q.requeues[k]++
}
func (q *RecQueue) Forget(item interface{}) {
	q.mu.Lock()
	defer q.mu.Unlock()
	k := q.rec("Forget", item, 0)
	delete(q.requeues, k)
}
func (q *RecQueue) NumRequeues(item interface{}) int {
	q.mu.Lock()
	defer q.mu.Unlock()
	return q.requeues[fmt.Sprint(item)]
}
func (q *RecQueue) Len() int {
	q.mu.Lock()
	defer q.mu.Unlock()
	return len(q.items)
}
func (q *RecQueue) Get() (interface{}, bool) {
	q.mu.Lock()
	defer q.mu.Unlock()
	if q.Shut || len(q.items) == 0 {
		return nil, true
	}
	k := q.items[0]
	q.items = q.items[1:]
	q.rec("Get", k, 0)
	return k, false
}
func (q *RecQueue) Done(item interface{}) {
	q.mu.Lock()
	defer q.mu.Unlock()
	q.rec("Done", item, 0)
}
func (q *RecQueue) ShutDown() {
	q.mu.Lock()
	defer q.mu.Unlock()
	q.rec("ShutDown", "", 0)
	q.Shut = true
}
func (q *RecQueue) ShutDownWithDrain() { q.ShutDown() }
func (q *RecQueue) ShuttingDown() bool {
	q.mu.Lock()
	defer q.mu.Unlock()
	return q.Shut
}

// Items returns the keys currently queued.
func (q *RecQueue) Items() []string {
	q.mu.Lock()
	defer q.mu.Unlock()
	return append([]string(nil), q.items...)
}

// Put forces key to the front of the queue (the harness acting as the scheduler of work items).
func (q *RecQueue) Put(k string) {
	q.mu.Lock()
	defer q.mu.Unlock()
	var rest []string
	for _, it := range q.items {
		if it != k {
			rest = append(rest, it)
		}
	}
	q.items = append([]string{k}, rest...)
}

// Clear empties queue and op log.
func (q *RecQueue) Clear() {
	q.mu.Lock()
	defer q.mu.Unlock()
	q.items, q.Ops = nil, nil
	q.requeues = map[string]int{}
}

// Has reports whether an op with the given name and key was recorded.
func (q *RecQueue) Has(op, key string) bool {
	q.mu.Lock()
	defer q.mu.Unlock()
	for _, o := range q.Ops {
		if o.Op == op && o.Key == key {
			return true
		}
	}
	return false
}
