// Package vsync is the shim that factory.go / informer.go are built against in the C18 lock-level build
// (import path rewrite "sync" -> this package). Lock operations of scheduler threads become visible
// operations of the cooperative scheduler (mc.Sched); every other goroutine gets the real primitive.
package vsync

import (
	"sync"

	"metacontroller/pkg/internal/verif/mc"
)

type (
	WaitGroup = sync.WaitGroup
	Once      = sync.Once
)

// Current is the scheduler whose threads' lock operations are visible (nil: plain sync behaviour).
var Current *mc.Sched

func thread() *mc.Sched {
	if s := Current; s != nil && s.IsThread() {
		return s
	}
	return nil
}

type Mutex struct {
	mu   sync.Mutex
	held bool
	Name string
}

func (m *Mutex) Lock() {
	if s := thread(); s != nil {
		s.YieldUntil("Lock", func() bool { return !m.held })
	}
	m.mu.Lock()
	m.held = true
}

func (m *Mutex) Unlock() {
	m.held = false
	m.mu.Unlock()
}

type RWMutex struct {
	mu      sync.RWMutex
	meta    sync.Mutex
	writer  bool
	readers int
}

func (m *RWMutex) Lock() {
	if s := thread(); s != nil {
		s.YieldUntil("Lock(rw)", func() bool { m.meta.Lock(); defer m.meta.Unlock(); return !m.writer && m.readers == 0 })
	}
	m.mu.Lock()
	m.meta.Lock()
	m.writer = true
	m.meta.Unlock()
}

func (m *RWMutex) Unlock() {
	m.meta.Lock()
	m.writer = false
	m.meta.Unlock()
	m.mu.Unlock()
}

func (m *RWMutex) RLock() {
	if s := thread(); s != nil {
		s.YieldUntil("RLock", func() bool { m.meta.Lock(); defer m.meta.Unlock(); return !m.writer })
	}
	m.mu.RLock()
	m.meta.Lock()
	m.readers++
	m.meta.Unlock()
}

func (m *RWMutex) RUnlock() {
	m.meta.Lock()
	m.readers--
	m.meta.Unlock()
	m.mu.RUnlock()
}
