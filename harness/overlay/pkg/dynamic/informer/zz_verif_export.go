//go:build verif

package informer

import (
	"sort"

	"metacontroller/pkg/internal/verif/vcache"
)

// VerifInformers returns the vcache informers currently held by the factory, keyed "resource.apiVersion".
func (f *SharedInformerFactory) VerifInformers() map[string]*vcache.Informer {
	f.mutex.Lock()
	defer f.mutex.Unlock()
	out := make(map[string]*vcache.Informer, len(f.sharedInformers))
	for k, sri := range f.sharedInformers {
		if vi, ok := sri.informer.(*vcache.Informer); ok {
			out[k] = vi
		}
	}
	return out
}

// VerifRefCounts returns a copy of the factory's reference counts.
func (f *SharedInformerFactory) VerifRefCounts() map[string]int {
	f.mutex.Lock()
	defer f.mutex.Unlock()
	out := make(map[string]int, len(f.refCount))
	for k, v := range f.refCount {
		out[k] = v
	}
	return out
}

// VerifHandlerCounts returns, per shared informer, the sorted list of per-subscription handler counts.
func (f *SharedInformerFactory) VerifHandlerCounts() map[string][]int {
	f.mutex.Lock()
	defer f.mutex.Unlock()
	out := map[string][]int{}
	for k, sri := range f.sharedInformers {
		sri.eventHandlers.mutex.RLock()
		var l []int
		for _, hs := range sri.eventHandlers.handlers {
			l = append(l, len(hs))
		}
		sri.eventHandlers.mutex.RUnlock()
		sort.Ints(l)
		out[k] = l
	}
	return out
}

// VerifHandlers returns the number of handlers registered through this subscription.
func (ri *ResourceInformer) VerifHandlers() int {
	seh := ri.sharedResourceInformer.eventHandlers
	seh.mutex.RLock()
	defer seh.mutex.RUnlock()
	return len(seh.handlers[ri.informerWrapper])
}

// VerifShared returns the vcache informer behind this subscription.
func (ri *ResourceInformer) VerifShared() *vcache.Informer {
	vi, _ := ri.sharedResourceInformer.informer.(*vcache.Informer)
	return vi
}
