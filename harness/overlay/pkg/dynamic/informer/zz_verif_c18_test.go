//go:build verif

package informer_test

import (
	"fmt"
	"sort"
	"strings"
	"sync"
	"testing"
	"time"

	"k8s.io/apimachinery/pkg/apis/meta/v1/unstructured"
	"k8s.io/apimachinery/pkg/labels"
	"k8s.io/client-go/tools/cache"

	dynamicinformer "metacontroller/pkg/dynamic/informer"
	"metacontroller/pkg/internal/verif/kit"
	"metacontroller/pkg/internal/verif/mc"
	"metacontroller/pkg/internal/verif/sim"
	"metacontroller/pkg/internal/verif/vcache"
	"metacontroller/pkg/internal/verif/vsync"
	"metacontroller/pkg/internal/verif/vtime"
	"metacontroller/pkg/internal/verif/world"
)

// C18: shared informers live while subscribed to; subscribers are isolated (DESIGN §4 C18).
// All operation sequences up to a bounded length over 2-3 subscribers and 1-2 resources are executed on the
// real factory/informer wrapper (vcache informer in list-watch mode against the sim, tickers fired by the
// harness) and compared step by step with a reference model (a refcount and a list per handler).

type recHandler struct {
	id  string
	mu  sync.Mutex
	got []string
}

func (h *recHandler) add(s string) {
	h.mu.Lock()
	h.got = append(h.got, s)
	h.mu.Unlock()
}

func (h *recHandler) events() []string {
	h.mu.Lock()
	defer h.mu.Unlock()
	return append([]string(nil), h.got...)
}

func evKey(o interface{}) string {
	if ts, ok := o.(cache.DeletedFinalStateUnknown); ok {
		o = ts.Obj
	}
	u := o.(*unstructured.Unstructured)
	return u.GetKind() + "/" + u.GetName() + "@" + u.GetResourceVersion()
}

func (h *recHandler) OnAdd(o interface{}, initial bool) { h.add("add " + evKey(o)) }
func (h *recHandler) OnUpdate(o, n interface{}) {
	if evKey(o) == evKey(n) {
		h.add("resync " + evKey(n))
		return
	}
	h.add("update " + evKey(o) + "->" + evKey(n))
}
func (h *recHandler) OnDelete(o interface{}) { h.add("delete " + evKey(o)) }

type modelHandler struct {
	h      *recHandler
	want   [][]string // segments: each segment is an unordered batch (replays) or a single ordered event
	ticker *vtime.Ticker
}

type c18Sub struct {
	res      int
	ri       *dynamicinformer.ResourceInformer
	handlers []*modelHandler
}

type c18World struct {
	b     *world.Base
	kinds []*sim.Kind
	subs  []*c18Sub // nil = not subscribed
	res   []int     // resource of each subscriber slot
	// model
	running      []bool
	incarn       []int
	lists        []int
	cacheObj     []map[string]string // per resource: name -> rv currently cached
	removed      []*modelHandler     // handlers that were removed: must stay silent
	stopped      []*vcache.Informer
	findings     []mc.Finding
	hist         []string
	objRV        int
	triedUnknown bool
}

var c18Dual bool // the two resources are two served versions of one resource (same group, same plural)
var c18Cluster bool // the first resource is CLUSTER-SCOPED (its cache keys have no namespace part)

// c18NS: the namespace objects of this kind live in
func c18NS(k *sim.Kind) string {
	if !k.Namespaced {
		return ""
	}
	return "n1"
}

func newC18World(nsubs int, tworesources bool) *c18World {
	vtime.Reset()
	b := world.NewBase(5*time.Minute, append(append([]*sim.Kind{}, kit.Kinds...), kit.Dual1, kit.Dual2)...)
	x := &c18World{b: b, kinds: []*sim.Kind{kit.Leaf, kit.Other}}
	if c18Dual {
		x.kinds = []*sim.Kind{kit.Dual1, kit.Dual2}
	}
	if c18Cluster {
		x.kinds = []*sim.Kind{kit.CWidget, kit.Other}
	}
	x.subs = make([]*c18Sub, nsubs)
	x.res = make([]int, nsubs)
	if tworesources {
		x.res[nsubs-1] = 1
	}
	x.running = make([]bool, 2)
	x.incarn = make([]int, 2)
	x.lists = make([]int, 2)
	x.cacheObj = []map[string]string{{}, {}}
	// a sentinel object per resource exists from the start, so that every resync delivers at least one
	// event: the harness can then wait for the (asynchronous) per-handler resync goroutine to have finished
	for _, k := range x.kinds {
		b.Sim.Seed(kit.Obj(k, c18NS(k), "z"))
	}
	return x
}

func (x *c18World) bad(key, format string, a ...interface{}) {
	x.findings = append(x.findings, mc.Finding{Key: "C18:" + key, Msg: fmt.Sprintf("after %v: ", x.hist) + fmt.Sprintf(format, a...)})
}

func resKey(k *sim.Kind) string { return sim.ResKey(k) }

// enabled operations in the current state.
func (x *c18World) ops() []string {
	var out []string
	for s := range x.subs {
		if x.subs[s] == nil {
			out = append(out, fmt.Sprintf("subscribe:%d", s))
			if s == 0 && !x.triedUnknown {
				out = append(out, "subscribeUnknown:0")
			}
			continue
		}
		if len(x.subs[s].handlers) < 2 {
			out = append(out, fmt.Sprintf("addHandler:%d", s), fmt.Sprintf("addHandlerResync:%d", s))
		}
		if len(x.subs[s].handlers) > 0 {
			out = append(out, fmt.Sprintf("removeHandlers:%d", s))
		}
		out = append(out, fmt.Sprintf("close:%d", s))
		for hi, mh := range x.subs[s].handlers {
			if mh.ticker != nil {
				out = append(out, fmt.Sprintf("tick:%d:%d", s, hi))
			}
		}
	}
	nres := 1
	for _, r := range x.res {
		if r == 1 {
			nres = 2
		}
	}
	for r := 0; r < nres; r++ {
		if x.b.Sim.Get(x.kinds[r], c18NS(x.kinds[r]), "x") == nil {
			out = append(out, fmt.Sprintf("objAdd:%d", r))
		} else {
			out = append(out, fmt.Sprintf("objUpdate:%d", r), fmt.Sprintf("objDelete:%d", r))
		}
	}
	return out
}

func (x *c18World) liveHandlers(r int) []*modelHandler {
	var out []*modelHandler
	for _, sb := range x.subs {
		if sb != nil && sb.res == r {
			out = append(out, sb.handlers...)
		}
	}
	return out
}

func (x *c18World) apply(op string) {
	x.hist = append(x.hist, op)
	var a, b int
	parts := strings.Split(op, ":")
	fmt.Sscanf(parts[1], "%d", &a)
	if len(parts) > 2 {
		fmt.Sscanf(parts[2], "%d", &b)
	}
	switch parts[0] {
	case "subscribeUnknown":
		// a resource API discovery does not know: the attempt fails and must leave no trace
		x.triedUnknown = true
		if _, err := x.b.Factory.Resource("v1", "nonexistent"); err == nil {
			x.bad("unknown-resource-accepted", "subscription to an undiscovered resource succeeded")
		}
		if _, err := x.b.Factory.Resource(x.kinds[0].APIVersion()+"x", x.kinds[0].Resource); err == nil {
			x.bad("unknown-resource-accepted", "subscription to an undiscovered API version succeeded")
		}
	case "subscribe":
		r := x.res[a]
		k := x.kinds[r]
		ri, err := x.b.Factory.Resource(k.APIVersion(), k.Resource)
		if err != nil {
			x.bad("subscribe-error", "%v", err)
			return
		}
		x.subs[a] = &c18Sub{res: r, ri: ri}
		inf := ri.VerifShared()
		if err := inf.WaitStarted(); err != nil {
			x.bad("start-error", "%v", err)
		}
		if !x.running[r] {
			// model: a fresh informer starts: LIST + WATCH, cache = store content
			x.running[r] = true
			x.incarn[r]++
			x.lists[r]++
			x.cacheObj[r] = map[string]string{}
			for _, name := range []string{"x", "z"} {
				if o := x.b.Sim.Get(k, c18NS(k), name); o != nil {
					x.cacheObj[r][name] = kit.Str(o, "metadata", "resourceVersion")
				}
			}
		}
	case "addHandler", "addHandlerResync":
		sb := x.subs[a]
		mh := &modelHandler{h: &recHandler{id: fmt.Sprintf("s%d.h%d", a, len(sb.handlers))}}
		// model: replay of everything cached when it is added
		var replay []string
		for name, rv := range x.cacheObj[sb.res] {
			replay = append(replay, fmt.Sprintf("resync %s/%s@%s", x.kinds[sb.res].Kind, name, rv))
		}
		if len(replay) > 0 {
			mh.want = append(mh.want, replay)
		}
		before := len(vtime.Tickers())
		if parts[0] == "addHandler" {
			sb.ri.Informer().AddEventHandler(mh.h)
		} else {
			sb.ri.Informer().AddEventHandlerWithResyncPeriod(mh.h, time.Second)
			// the per-handler resync goroutine creates its ticker asynchronously
			// (liveness wait with a generous watchdog; it only ever elapses when the goroutine never starts)
			for i := 0; i < 600000 && len(vtime.Tickers()) == before; i++ {
				time.Sleep(100 * time.Microsecond)
			}
			if tk := vtime.Tickers(); len(tk) > before {
				mh.ticker = tk[len(tk)-1]
			} else {
				x.bad("no-ticker", "a handler with its own resync period got no ticker")
			}
		}
		sb.handlers = append(sb.handlers, mh)
	case "removeHandlers":
		sb := x.subs[a]
		sb.ri.Informer().RemoveEventHandlers()
		for _, mh := range sb.handlers {
			if mh.ticker != nil && !mh.ticker.Stopped() {
				x.bad("ticker-not-stopped", "handler %s was removed but its resync ticker still runs", mh.h.id)
			}
		}
		x.removed = append(x.removed, sb.handlers...)
		sb.handlers = nil
	case "close":
		sb := x.subs[a]
		inf := sb.ri.VerifShared()
		sb.ri.Informer().RemoveEventHandlers() // production always removes its handlers before closing
		x.removed = append(x.removed, sb.handlers...)
		sb.ri.Close()
		x.subs[a] = nil
		open := 0
		for _, o := range x.subs {
			if o != nil && o.res == sb.res {
				open++
			}
		}
		if open == 0 {
			x.running[sb.res] = false
			if !inf.StopRequested() {
				// decided without waiting: the stop channel of the informer must be closed by the last Close
				x.bad("not-stopped", "the last subscription closed but the shared informer was not told to stop")
			} else {
				inf.WaitStopped()
				x.stopped = append(x.stopped, inf)
			}
		}
	case "tick":
		sb := x.subs[a]
		mh := sb.handlers[b]
		n0 := len(mh.h.events())
		if !mh.ticker.Fire() {
			x.bad("tick-lost", "the resync goroutine of %s did not take the tick", mh.h.id)
			return
		}
		var replay []string
		for name, rv := range x.cacheObj[sb.res] {
			replay = append(replay, fmt.Sprintf("resync %s/%s@%s", x.kinds[sb.res].Kind, name, rv))
		}
		if len(replay) > 0 {
			mh.want = append(mh.want, replay)
		}
		// wait for the asynchronous resync goroutine to have delivered the whole replay (watchdog 60 s: it
		// only elapses if events are really missing, which the comparison below then reports)
		for i := 0; i < 1200000 && len(mh.h.events()) < n0+len(replay); i++ {
			time.Sleep(50 * time.Microsecond)
		}
	case "objAdd", "objUpdate", "objDelete":
		r := a
		k := x.kinds[r]
		x.objRV++
		old := x.cacheObj[r]["x"]
		switch parts[0] {
		case "objAdd":
			x.b.Sim.Seed(kit.Obj(k, c18NS(k), "x"))
		case "objUpdate":
			x.b.Sim.Edit(k, c18NS(k), "x", func(o map[string]interface{}) { kit.Field(o, fmt.Sprint(x.objRV), "spec", "v") })
		case "objDelete":
			x.b.Sim.Remove(k, c18NS(k), "x")
		}
		if x.running[r] {
			// (in the two-version and cluster-scoped configurations a deletion reaches the informer as a tombstone -
			// DeletedFinalStateUnknown, what a relist after a dropped watch produces - instead of the object)
			x.b.Deliver(k, c18NS(k), "x", parts[0] == "objDelete" && (c18Dual || c18Cluster))
			o := x.b.Sim.Get(k, c18NS(k), "x")
			var ev string
			switch parts[0] {
			case "objAdd":
				rv := kit.Str(o, "metadata", "resourceVersion")
				ev = fmt.Sprintf("add %s/x@%s", k.Kind, rv)
				x.cacheObj[r]["x"] = rv
			case "objUpdate":
				rv := kit.Str(o, "metadata", "resourceVersion")
				ev = fmt.Sprintf("update %s/x@%s->%s/x@%s", k.Kind, old, k.Kind, rv)
				x.cacheObj[r]["x"] = rv
			case "objDelete":
				ev = fmt.Sprintf("delete %s/x@%s", k.Kind, old)
				delete(x.cacheObj[r], "x")
			}
			for _, mh := range x.liveHandlers(r) {
				mh.want = append(mh.want, []string{ev})
			}
		}
	}
	x.check()
}

// check compares the implementation with the reference model after every operation.
func (x *c18World) check() {
	refs := x.b.Factory.VerifRefCounts()
	infs := x.b.Factory.VerifInformers()
	for r, k := range x.kinds {
		key := k.Resource + "." + k.APIVersion()
		open := 0
		for _, sb := range x.subs {
			if sb != nil && sb.res == r {
				open++
			}
		}
		if refs[key] != open {
			x.bad("refcount", "%s: factory refcount %d, open subscriptions %d", key, refs[key], open)
		}
		if (infs[key] != nil) != (open > 0) {
			x.bad("running-iff-subscribed", "%s: informer held=%v, open subscriptions %d", key, infs[key] != nil, open)
		}
		if ow := x.b.Sim.OpenWatches[resKey(k)]; ow != map[bool]int{true: 1, false: 0}[open > 0] {
			x.bad("watch", "%s: %d open watch streams with %d open subscriptions", key, ow, open)
		}
		if x.b.Sim.Lists[resKey(k)] != x.lists[r] {
			x.bad("list-count", "%s: %d LIST requests, model expects %d (a fresh informer per incarnation)", key, x.b.Sim.Lists[resKey(k)], x.lists[r])
		}
	}
	known := map[string]bool{}
	for _, k := range x.kinds {
		known[k.Resource+"."+k.APIVersion()] = true
	}
	for key, n := range refs {
		if !known[key] {
			x.bad("refcount-for-failed-subscription", "factory counts %d subscribers for %s although no subscription to it ever succeeded", n, key)
		}
	}
	for _, inf := range x.stopped {
		if !inf.Stopped() {
			x.bad("not-stopped", "informer %d not stopped after its last subscription closed", inf.ID)
		}
	}
	cmp := func(mh *modelHandler, live bool) {
		i := 0
		for _, seg := range mh.want {
			if i+len(seg) > len(mh.h.events()) {
				x.bad("handler-missed-events", "%s received %v, model expects (in order, batches unordered) %v", mh.h.id, mh.h.events(), mh.want)
				return
			}
			a := append([]string{}, mh.h.events()[i:i+len(seg)]...)
			b := append([]string{}, seg...)
			sort.Strings(a)
			sort.Strings(b)
			if strings.Join(a, "|") != strings.Join(b, "|") {
				x.bad("handler-wrong-events", "%s received %v, model expects %v", mh.h.id, mh.h.events(), mh.want)
				return
			}
			i += len(seg)
		}
		if i != len(mh.h.events()) {
			key := "handler-extra-events"
			if !live {
				key = "removed-handler-still-notified"
			}
			x.bad(key, "%s received %v, model expects only %v", mh.h.id, mh.h.events(), mh.want)
		}
	}
	for _, sb := range x.subs {
		if sb != nil {
			for _, mh := range sb.handlers {
				cmp(mh, true)
			}
		}
	}
	for _, mh := range x.removed {
		cmp(mh, false)
	}
}

func (x *c18World) teardown() {
	defer func() {
		// informers a defective factory never told to stop must not leak their goroutines into later cases
		vcache.Reset()
	}()
	for s, sb := range x.subs {
		if sb != nil {
			sb.ri.Informer().RemoveEventHandlers()
			sb.ri.Close()
			x.subs[s] = nil
		}
	}
}

func TestVerifC18(t *testing.T) {
	r := mc.NewReport("C18", "sequences")
	defer r.Write()
	vcache.Mode = vcache.ListWatchMode // informers are created by the factory during the run
	defer func() { vcache.Mode = vcache.Controlled }()
	maxLen := 5
	if mc.Thorough() {
		maxLen = 7
	}
	idx := 0
	for _, cfg := range []struct {
		subs int
		two  bool
		dual bool
		clus bool
	}{{2, false, false, false}, {3, true, false, false}, {2, true, true, false}, {2, false, false, true}} {
		c18Dual, c18Cluster = cfg.dual, cfg.clus
		ml := maxLen
		if cfg.subs == 3 {
			ml = maxLen - 1
		}
		subtree := 0
		var rec func(prefix []string)
		rec = func(prefix []string) {
			// sharding by depth-2 subtree: prefixes shorter than 2 are evaluated by shard 0
			mine := true
			if len(prefix) < 2 {
				i, _ := mc.Shard()
				mine = i == 0
			}
			if len(prefix) == 2 {
				subtree++
				if !mc.Mine(subtree) {
					return
				}
			}
			idx++
			if !r.Guard(kit.M{"subscribers": cfg.subs, "two-versions": cfg.dual, "cluster-scoped": cfg.clus, "ops": prefix}) {
				return // this sequence aborted the process before: recorded, not expanded
			}
			// execute the prefix on a fresh world
			x := newC18World(cfg.subs, cfg.two)
			for _, op := range prefix {
				x.apply(op)
			}
			if mine && len(prefix) > 0 {
				r.EvalDistinct(true)
				r.Transitions += len(prefix)
				r.Outcome(strings.Split(prefix[len(prefix)-1], ":")[0])
				for _, f := range x.findings {
					r.Violate(f.Key, f.Msg, kit.M{"subscribers": cfg.subs, "two-versions": cfg.dual, "cluster-scoped": cfg.clus, "ops": prefix})
				}
				if idx%4001 == 0 {
					r.Sample(kit.M{"subscribers": cfg.subs, "ops": prefix})
				}
			}
			ops := x.ops()
			bad := len(x.findings) > 0
			x.teardown()
			if len(prefix) >= ml || bad {
				return
			}
			for _, op := range ops {
				rec(append(append([]string{}, prefix...), op))
			}
		}
		rec(nil)
	}
	c18Dual, c18Cluster = false, false
	r.States = r.Evaluations
}

// TestVerifC18Race: the same operations issued from concurrent goroutines, free-running under the race
// detector (built with -race by the driver). Supplementary: a report is a real race, silence proves nothing.
func TestVerifC18Race(t *testing.T) {
	r := mc.NewReport("C18", "race-pass")
	defer r.Write()
	vcache.Mode = vcache.ListWatchMode
	defer func() { vcache.Mode = vcache.Controlled }()
	reps := 40
	if mc.Thorough() {
		reps = 200
	}
	for rep := 0; rep < reps; rep++ {
		r.Case(kit.M{"free-running-repetition": rep}, fmt.Sprint(rep), func() []mc.Finding {
			vtime.Reset()
			b := world.NewBase(5*time.Minute, kit.Kinds...)
			b.Sim.Seed(kit.Obj(kit.Leaf, "n1", "z"))
			done := make(chan struct{})
			for g := 0; g < 3; g++ {
				go func(g int) {
					defer func() { done <- struct{}{} }()
					for i := 0; i < 4; i++ {
						ri, err := b.Factory.Resource("v1", "leafs")
						if err != nil {
							return
						}
						_ = ri.VerifShared().WaitStarted()
						h := &recHandler{}
						if (g+i)%2 == 0 {
							ri.Informer().AddEventHandler(h)
						} else {
							ri.Informer().AddEventHandlerWithResyncPeriod(h, time.Second)
						}
						_, _ = ri.Lister().List(labels.Everything())
						ri.Informer().RemoveEventHandlers()
						ri.Close()
					}
				}(g)
			}
			// object events flow meanwhile
			for i := 0; i < 6; i++ {
				b.Sim.Edit(kit.Leaf, "n1", "z", func(o map[string]interface{}) { kit.Field(o, fmt.Sprint(i), "spec", "v") })
				b.Deliver(kit.Leaf, "n1", "z", false)
			}
			for g := 0; g < 3; g++ {
				<-done
			}
			if rc := b.Factory.VerifRefCounts(); len(rc) != 0 {
				return []mc.Finding{{Key: "C18:race:refcount-leak", Msg: fmt.Sprintf("all subscriptions closed but refcounts are %v", rc)}}
			}
			return nil
		})
	}
}

// ---------------------------------------------------------------------------------------------
// Lock-level interleavings (E4): 2-3 threads issue subscription operations and object deliveries
// concurrently; factory.go / informer.go are built against vsync, so every Lock/RLock of a thread is a
// scheduling point. Oracle: the observable outcome equals the outcome of SOME sequential order of the
// operations according to the reference model (a delivery = cache update, then fan-out: two model steps).

type concOp struct {
	Kind string // sub, add, remove, close, deliver
}

type concModel struct {
	refcount int
	cache    string // rv of object x in the current informer's cache ("" = absent)
	subs     map[int]bool
	handlers map[int]*[]string // thread -> events of its handler (nil = none registered)
	regd     map[int]bool
}

func (m *concModel) clone() *concModel {
	c := &concModel{refcount: m.refcount, cache: m.cache, subs: map[int]bool{}, handlers: map[int]*[]string{}, regd: map[int]bool{}}
	for k, v := range m.subs {
		c.subs[k] = v
	}
	for k, v := range m.handlers {
		l := append([]string{}, (*v)...)
		c.handlers[k] = &l
	}
	for k, v := range m.regd {
		c.regd[k] = v
	}
	return c
}

type concStep struct {
	thread int
	kind   string // sub add remove close cacheSet fanout
	rv     string
	old    string
}

func (m *concModel) apply(s concStep) {
	switch s.kind {
	case "sub":
		if m.refcount == 0 {
			m.cache = "" // a fresh informer (controlled mode: its cache starts empty)
		}
		m.refcount++
		m.subs[s.thread] = true
	case "add":
		l := []string{}
		if m.cache != "" {
			l = append(l, "resync x@"+m.cache)
		}
		m.handlers[s.thread] = &l
		m.regd[s.thread] = true
	case "remove":
		m.regd[s.thread] = false
	case "close":
		m.regd[s.thread] = false
		m.refcount--
		m.subs[s.thread] = false
	case "cacheSet":
		// handled by the caller (needs to know whether an informer is running)
	case "fanout":
		for t, ok := range m.regd {
			if ok {
				l := m.handlers[t]
				if s.old == "" {
					*l = append(*l, "add x@"+s.rv)
				} else {
					*l = append(*l, "update x@"+s.old+"->x@"+s.rv)
				}
			}
		}
	}
}

func (m *concModel) outcome() string {
	var parts []string
	parts = append(parts, fmt.Sprintf("refcount=%d", m.refcount))
	var ts []int
	for t := range m.handlers {
		ts = append(ts, t)
	}
	sort.Ints(ts)
	for _, t := range ts {
		parts = append(parts, fmt.Sprintf("h%d=%v", t, *m.handlers[t]))
	}
	return strings.Join(parts, " ")
}

// all sequential outcomes of the programs (threads' op lists) under the model
func concModelOutcomes(progs [][]concOp, pre []concOp) map[string]bool {
	out := map[string]bool{}
	type pos struct {
		idx  []int
		sub  []int // sub-step inside a deliver (0 = before cacheSet, 1 = before fanout)
		old  []string
		live []bool // deliver found a running informer
		rv   int
	}
	var rec func(m *concModel, idx []int, half []int, pend []concStep, rv int)
	rec = func(m *concModel, idx []int, half []int, pend []concStep, rv int) {
		doneAll := true
		for t := range progs {
			if idx[t] >= len(progs[t]) {
				continue
			}
			doneAll = false
			op := progs[t][idx[t]]
			m2 := m.clone()
			idx2 := append([]int{}, idx...)
			half2 := append([]int{}, half...)
			pend2 := append([]concStep{}, pend...)
			rv2 := rv
			switch op.Kind {
			case "deliver":
				if half[t] == 0 {
					// step 1: look the informer up and update its cache
					if m2.refcount > 0 {
						rv2++
						pend2[t] = concStep{thread: t, kind: "fanout", rv: fmt.Sprint(rv2), old: m2.cache}
						m2.cache = fmt.Sprint(rv2)
						half2[t] = 1
					} else {
						idx2[t]++ // nobody runs an informer: the event is not observed
					}
				} else {
					m2.apply(pend2[t])
					half2[t] = 0
					idx2[t]++
				}
			default:
				m2.apply(concStep{thread: t, kind: op.Kind})
				idx2[t]++
			}
			rec(m2, idx2, half2, pend2, rv2)
		}
		if doneAll {
			out[m.outcome()] = true
		}
	}
	n := len(progs)
	// the keeper's prefix runs sequentially before the threads start (pseudo-thread n, no handler)
	m0 := &concModel{subs: map[int]bool{}, handlers: map[int]*[]string{}, regd: map[int]bool{}}
	rv0 := 0
	for _, op := range pre {
		switch op.Kind {
		case "deliver":
			if m0.refcount > 0 {
				rv0++
				st := concStep{thread: n, kind: "fanout", rv: fmt.Sprint(rv0), old: m0.cache}
				m0.cache = fmt.Sprint(rv0)
				m0.apply(st)
			}
		default:
			m0.apply(concStep{thread: n, kind: op.Kind})
		}
	}
	rec(m0, make([]int, n), make([]int, n), make([]concStep, n), rv0)
	return out
}

func TestVerifC18Conc(t *testing.T) {
	r := mc.NewReport("C18", "lock-level-interleavings")
	defer r.Write()
	programs := [][][]concOp{
		{{{"sub"}, {"add"}, {"close"}}, {{"sub"}, {"add"}, {"close"}}},
		{{{"sub"}, {"add"}}, {{"deliver"}}, {{"sub"}, {"close"}}},
		{{{"sub"}, {"add"}, {"remove"}, {"close"}}, {{"sub"}, {"add"}, {"deliver"}}},
		{{{"sub"}, {"close"}}, {{"sub"}, {"add"}, {"deliver"}, {"close"}}},
	}
	// programs with a keeper: one subscription is opened (and possibly an object cached) before the threads start,
	// so that the informer exists whatever the schedule - a handler added late races with a live event
	pres := map[int][]concOp{}
	pres[len(programs)] = []concOp{{"sub"}, {"deliver"}}
	programs = append(programs, [][]concOp{{{"sub"}, {"add"}}, {{"deliver"}}})
	pres[len(programs)] = []concOp{{"sub"}}
	programs = append(programs, [][]concOp{{{"sub"}, {"add"}, {"remove"}}, {{"deliver"}, {"deliver"}}})
	if mc.Thorough() {
		programs = append(programs,
			[][]concOp{{{"sub"}, {"add"}, {"close"}}, {{"sub"}, {"add"}, {"close"}}, {{"deliver"}, {"deliver"}}},
			[][]concOp{{{"sub"}, {"add"}, {"remove"}, {"add"}, {"close"}}, {{"deliver"}}, {{"sub"}, {"close"}, {"sub"}, {"add"}}})
		pres[len(programs)] = []concOp{{"sub"}, {"deliver"}}
		programs = append(programs, [][]concOp{{{"sub"}, {"add"}, {"close"}}, {{"deliver"}, {"deliver"}}, {{"sub"}, {"add"}}})
	}
	bound := 2
	if mc.Thorough() {
		bound = 3
	}
	shardI, shardN := mc.Shard()
	for pi, progs := range programs {
		if pi%shardN != shardI {
			continue
		}
		pre := pres[pi]
		want := concModelOutcomes(progs, pre)
		sub := mc.NewReport("C18", "tmp")
		mc.ExploreSchedules(sub, bound, 0, func(s *mc.Sched) ([]func(), func(t *mc.Trace) []mc.Finding) {
			vtime.Reset()
			b := world.NewBase(5*time.Minute, kit.Kinds...)
			vsync.Current = s
			handlers := make([]*recHandler, len(progs))
			subsH := make([]*dynamicinformer.ResourceInformer, len(progs))
			rv := 0
			var keeper *dynamicinformer.ResourceInformer
			for _, op := range pre {
				switch op.Kind {
				case "sub":
					ri, err := b.Factory.Resource("v1", "leafs")
					if err != nil {
						panic(err)
					}
					keeper = ri
				case "deliver":
					if inf := b.Factory.VerifInformers()["leafs.v1"]; inf != nil {
						rv++
						o := kit.Obj(kit.Leaf, "n1", "x")
						kit.Field(o, fmt.Sprint(rv), "metadata", "resourceVersion")
						inf.Set(world.DecodeUnstructured(o))
					}
				}
			}
			threads := make([]func(), len(progs))
			for ti := range progs {
				ti := ti
				threads[ti] = func() {
					for _, op := range progs[ti] {
						switch op.Kind {
						case "sub":
							ri, err := b.Factory.Resource("v1", "leafs")
							if err != nil {
								panic(err)
							}
							subsH[ti] = ri
						case "add":
							handlers[ti] = &recHandler{id: fmt.Sprintf("h%d", ti)}
							subsH[ti].Informer().AddEventHandler(handlers[ti])
						case "remove":
							subsH[ti].Informer().RemoveEventHandlers()
						case "close":
							subsH[ti].Informer().RemoveEventHandlers()
							subsH[ti].Close()
						case "deliver":
							inf := b.Factory.VerifInformers()["leafs.v1"]
							if inf == nil {
								continue
							}
							rv++
							o := kit.Obj(kit.Leaf, "n1", "x")
							kit.Field(o, fmt.Sprint(rv), "metadata", "resourceVersion")
							inf.Set(world.DecodeUnstructured(o))
						}
					}
				}
			}
			return threads, func(tr *mc.Trace) []mc.Finding {
				vsync.Current = nil
				var parts []string
				open := 0
				for ti := range progs {
					if subsH[ti] != nil {
						closed := false
						for _, op := range progs[ti] {
							if op.Kind == "close" {
								closed = !closed
							}
							if op.Kind == "sub" {
								closed = false
							}
						}
						if !closed {
							open++
						}
					}
				}
				if keeper != nil {
					open++
				}
				rc := b.Factory.VerifRefCounts()["leafs.v1"]
				parts = append(parts, fmt.Sprintf("refcount=%d", rc))
				for ti := range progs {
					if handlers[ti] != nil {
						got := []string{}
						for _, g := range handlers[ti].events() {
							got = append(got, strings.ReplaceAll(g, "Leaf/", ""))
						}
						parts = append(parts, fmt.Sprintf("h%d=%v", ti, got))
					}
				}
				outcome := strings.Join(parts, " ")
				r.Outcome(fmt.Sprintf("program %d: %s", pi, outcome))
				var f []mc.Finding
				if rc != open {
					f = append(f, mc.Finding{Key: "C18:conc:refcount", Msg: fmt.Sprintf("program %d: refcount %d with %d open subscriptions", pi, rc, open)})
				}
				if (b.Factory.VerifInformers()["leafs.v1"] != nil) != (open > 0) {
					f = append(f, mc.Finding{Key: "C18:conc:running-iff-subscribed", Msg: fmt.Sprintf("program %d: informer held=%v with %d open subscriptions", pi, b.Factory.VerifInformers()["leafs.v1"] != nil, open)})
				}
				if !want[outcome] {
					f = append(f, mc.Finding{Key: "C18:conc:not-linearisable", Msg: fmt.Sprintf("program %d %v: outcome %q equals no sequential order of the operations (model allows %v)", pi, progs, outcome, mc.SortedKeys(want))})
				}
				// release everything still held so that informer goroutines end
				for ti := range progs {
					if subsH[ti] != nil {
						mc.Recover(func() { subsH[ti].Informer().RemoveEventHandlers() })
					}
				}
				if keeper != nil {
					mc.Recover(func() { keeper.Close() })
				}
				return f
			}
		})
		r.States += sub.States
		r.Transitions += sub.Transitions
		r.Evaluations += sub.Evaluations
		r.Distinct += sub.Distinct
		for _, v := range sub.Violations {
			r.Violate(v.Key, v.Msg, v.Replay)
		}
		if !sub.Exhaustive {
			r.Capped(fmt.Sprintf("program %d: %s", pi, sub.Bound))
		} else {
			r.Infof("program %d: %s, %d sequential outcomes allowed", pi, sub.Bound, len(want))
		}
		r.Sample(kit.M{"program": fmt.Sprintf("%v", progs), "schedules": sub.Evaluations})
	}
}
