//go:build verif

package discovery

// VerifRefresh runs one synchronous discovery refresh (the production code does this on a ticker
// goroutine started by Start).
func (rm *ResourceMap) VerifRefresh() { rm.refresh() }
