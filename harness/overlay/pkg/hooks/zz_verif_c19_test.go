//go:build verif

package hooks

import (
	"bytes"
	"fmt"
	"io"
	"net/http"
	"reflect"
	"strings"
	"testing"
	"time"

	"k8s.io/apimachinery/pkg/apis/meta/v1/unstructured"

	"metacontroller/pkg/apis/metacontroller/v1alpha1"
	"metacontroller/pkg/cache"
	"metacontroller/pkg/controller/common"
	"metacontroller/pkg/internal/verif/kit"
	"metacontroller/pkg/internal/verif/mc"
)

// C19: hook transport - only 200 / valid 304 is an answer; cached bodies match their ETag (DESIGN §4 C19).
// Part 1: full table over the real webhookExecutor.Call with a scripted HTTP client.
// Part 2: all interleavings of 2-3 concurrent calls with the same cache key at phase granularity.

type c19Resp struct {
	Status    map[string]interface{}       `json:"status"`
	Children  []*unstructured.Unstructured `json:"children"`
	Finalized bool                         `json:"finalized"`
}

type c19Req struct{ obj *unstructured.Unstructured }

func (r *c19Req) GetRootObject() *unstructured.Unstructured { return r.obj }
func (r *c19Req) MarshalJSON() ([]byte, error)              { return []byte(`{"parent":{}}`), nil }

func c19Parent() *unstructured.Unstructured {
	return &unstructured.Unstructured{Object: kit.Obj(kit.Thing, "n1", "p")}
}

// body v: a valid response whose content identifies the version
func c19Body(v string) string {
	return `{"status":{"v":"` + v + `"},"children":[]}`
}

type scriptClient struct {
	do func(req *http.Request) (*http.Response, error)
}

func (s *scriptClient) Do(req *http.Request) (*http.Response, error) { return s.do(req) }

func mkResp(code int, hdr map[string]string, body string) *http.Response {
	h := http.Header{}
	for k, v := range hdr {
		h.Set(k, v)
	}
	return &http.Response{StatusCode: code, Header: h, Body: io.NopCloser(bytes.NewReader([]byte(body)))}
}

var c19Now = time.Date(2026, 1, 1, 0, 0, 0, 0, time.UTC)

var (
	c19Statuses = []int{200, 201, 204, 301, 304, 400, 404, 412, 429, 500, 503, 0} // 0 = transport error
	c19ETags    = []string{"", "E1", "E2"}
	c19Retry    = []string{"", "7", "future-date", "past-date", "garbage"}
	c19Bodies   = []string{"valid", "unknown-field", "duplicate-field", "wrong-type", "invalid-json", "empty"}
	c19Caches   = []string{"empty", "entry-E1", "expired", "entry-E1-then-rejected-call", "entry-E1-unknown-field"}
)

type c19Case struct {
	Status int
	ETag   string
	Retry  string
	Body   string
	Strict bool
	Etag   bool
	Cache  string
}

func c19BodyOf(kind string) string {
	switch kind {
	case "valid":
		return c19Body("new")
	case "unknown-field":
		return `{"status":{"v":"new"},"children":[],"bogus":1}`
	case "duplicate-field":
		return `{"status":{"v":"dup"},"status":{"v":"new"},"children":[]}`
	case "wrong-type":
		return `{"status":{"v":"new"},"children":5}`
	case "invalid-json":
		return `{"status":`
	}
	return ""
}

var c19Outcome string

func c19Run(c c19Case) []mc.Finding {
	var f []mc.Finding
	bad := func(key, format string, a ...interface{}) {
		f = append(f, mc.Finding{Key: "C19:" + key, Msg: fmt.Sprintf("%+v: ", c) + fmt.Sprintf(format, a...)})
	}
	var abstract webhookAbstract = &webhookExecutorPlain{}
	var etagExec *webhookExecutorEtag
	if c.Etag {
		exp := time.Duration(0)
		if c.Cache == "expired" {
			exp = time.Nanosecond
		}
		etagExec = &webhookExecutorEtag{etagCache: cache.New[eTagKey, *eTagEntry](exp, 0)}
		abstract = etagExec
	}
	sc := &scriptClient{}
	var mode *v1alpha1.ResponseUnmarshallMode
	if c.Strict {
		m := v1alpha1.ResponseUnmarshallModeStrict
		mode = &m
	}
	ex := newWebhookExecutor(sc, "http://hook.invalid/sync", common.SyncHook, mode, abstract, func() time.Time { return c19Now })
	req := &c19Req{c19Parent()}
	// the body the cache is primed with: well-formed, or carrying an unknown field (acceptable in loose mode only;
	// the executor stores what arrived with the ETag before decoding it, so strict mode must reject it again when
	// a later 304 brings it back)
	primeBody, primeKind := c19Body("old"), "valid"
	if c.Cache == "entry-E1-unknown-field" {
		primeBody, primeKind = `{"status":{"v":"old"},"children":[],"bogus":1}`, "unknown-field"
	}
	// cache state
	if c.Etag && c.Cache != "empty" {
		sc.do = func(r *http.Request) (*http.Response, error) {
			return mkResp(200, map[string]string{"ETag": "E1"}, primeBody), nil
		}
		var out c19Resp
		if err := ex.Call(req, &out); err != nil && !c.Strict {
			bad("setup", "priming call failed: %v", err)
			return f
		}
		time.Sleep(2 * time.Nanosecond)
		if c.Cache == "entry-E1-then-rejected-call" {
			// an unrelated, rejected exchange in between must not disturb the cached (E1, body) pair
			sc.do = func(r *http.Request) (*http.Response, error) {
				return mkResp(500, nil, strings.Repeat("internal error ", 8)), nil
			}
			var junk c19Resp
			_ = ex.Call(&c19Req{&unstructured.Unstructured{Object: kit.Obj(kit.Thing, "n1", "other")}}, &junk)
		}
	}
	var sentINM string
	body := c19BodyOf(c.Body)
	sc.do = func(r *http.Request) (*http.Response, error) {
		sentINM = r.Header.Get("If-None-Match")
		if r.Header.Get("Content-Type") != "application/json" || r.Method != "POST" {
			bad("request-shape", "method %s content-type %q", r.Method, r.Header.Get("Content-Type"))
		}
		if c.Status == 0 {
			return nil, fmt.Errorf("dial tcp: connection refused")
		}
		hdr := map[string]string{}
		if c.ETag != "" {
			hdr["ETag"] = c.ETag
		}
		switch c.Retry {
		case "7":
			hdr["Retry-After"] = "7"
		case "future-date":
			hdr["Retry-After"] = c19Now.Add(90*time.Second + 300*time.Millisecond).Format(time.RFC1123)
		case "past-date":
			hdr["Retry-After"] = c19Now.Add(-90 * time.Second).Format(time.RFC1123)
		case "garbage":
			hdr["Retry-After"] = "soon"
		}
		return mkResp(c.Status, hdr, body), nil
	}
	var out c19Resp
	var err error
	p, stack := mc.Recover(func() { err = ex.Call(req, &out) })
	if p != nil {
		bad("panic", "panic %v\n%s", p, stack)
		return f
	}
	// what was sent
	wantINM := ""
	if c.Etag && (c.Cache == "entry-E1" || c.Cache == "entry-E1-then-rejected-call" || c.Cache == "entry-E1-unknown-field") {
		wantINM = "E1"
	}
	if sentINM != wantINM && !(c.Strict && c.Cache != "empty") {
		bad("if-none-match", "If-None-Match sent %q, want %q", sentINM, wantINM)
	}
	// expected verdict, from the statement
	notModified := (c.Status == 304 || c.Status == 412) && c.Etag && sentINM != ""
	usedBody := body
	if notModified {
		usedBody = primeBody // the body cached together with exactly the ETag that was sent (E1)
	}
	bodyKind := c.Body
	if notModified {
		bodyKind = primeKind
	}
	decodeOK := bodyKind == "valid" || (!c.Strict && (bodyKind == "unknown-field" || bodyKind == "duplicate-field"))
	wantOK := (c.Status == 200 || notModified) && decodeOK
	_ = usedBody
	switch {
	case c.Status == 429:
		c19Outcome = "429"
		tm, ok := err.(*TooManyRequestError)
		if !ok {
			bad("429-type", "429 gave %T %v, want *TooManyRequestError", err, err)
			break
		}
		switch c.Retry {
		case "7":
			if tm.AfterSecond != 7 {
				bad("429-delay", "Retry-After 7 gave %d", tm.AfterSecond)
			}
		case "future-date":
			if tm.AfterSecond != 90 && tm.AfterSecond != 91 {
				bad("429-delay", "Retry-After date +90.3s gave %d", tm.AfterSecond)
			}
		case "", "garbage":
			// no usable delay was given: none is invented (the caller requeues at once)
			if tm.AfterSecond != 0 {
				bad("429-delay", "Retry-After %q (nothing usable) gave a delay of %d s, want 0", c.Retry, tm.AfterSecond)
			}
		case "past-date":
			if tm.AfterSecond > 0 || tm.AfterSecond < -91 {
				bad("429-delay", "Retry-After date -90s gave %d", tm.AfterSecond)
			}
		}
	case wantOK:
		c19Outcome = "ok"
		if err != nil {
			bad("rejected-good-answer:"+fmt.Sprintf("strict=%v", c.Strict), "well-formed answer (status %d, body %s) rejected: %v", c.Status, bodyKind, err)
			break
		}
		wantV := "new"
		if notModified {
			wantV = "old"
		}
		if got, _ := out.Status["v"].(string); got != wantV {
			bad("wrong-body", "decoded status.v=%q, want %q", got, wantV)
		}
	default:
		c19Outcome = "error"
		if err == nil {
			bad("accepted-bad-answer", "status %d body %s strict=%v accepted (decoded %v)", c.Status, c.Body, c.Strict, out.Status)
		}
		if _, is429 := err.(*TooManyRequestError); is429 {
			bad("spurious-429", "status %d reported as TooManyRequestError", c.Status)
		}
	}
	// cache content after the call: an entry's body must be the body that arrived with its ETag
	if etagExec != nil {
		if e, ok := etagExec.etagCache.Get(etagExec.getKeyFromObject(req.obj)); ok {
			okPair := (e.Etag == "E1" && string(e.Response) == primeBody) || (e.Etag == c.ETag && string(e.Response) == body && c.Status == 200)
			if !okPair {
				bad("cache-pairing", "cache holds (%q, %q) which never arrived together in an accepted answer", e.Etag, string(e.Response))
			}
		}
	}
	return f
}

// ---------------------------------------------------------------------------------------------
// Part 2: interleavings.

type c19Thread struct {
	id      int
	resume  chan struct{}
	yielded chan string // "gate" or "done"
	inm     string      // If-None-Match this call sent
	err     error
	out     c19Resp
	servedV int // server version this call was answered from (200) or 0
}

type c19Sched struct {
	Threads  int
	Schedule []int  // thread id per step
	Bumps    []bool // server content changes before the k-th server decision
	Primed   bool   // cache starts with (E1, B1)
	// ExpireBefore: the cache is configured with a lifetime (cacheTimeoutSeconds) and every entry in it expires just
	// before this step of the schedule (-1: entries never expire)
	ExpireBefore int
	// WeakStrong: successive versions of the answer carry the same opaque tag alternately in weak and in strong
	// form (W/"r1", "r1", W/"r2", "r2", ...) - two different validators that differ only in the W/ prefix
	WeakStrong bool
}

func c19Tag(s c19Sched, version int) string {
	if !s.WeakStrong {
		return fmt.Sprintf("E%d", version)
	}
	if version%2 == 1 {
		return fmt.Sprintf(`W/"r%d"`, (version+1)/2)
	}
	return fmt.Sprintf(`"r%d"`, (version+1)/2)
}

// c19VersionOf: the version whose tag this is ("" if none)
func c19VersionOf(s c19Sched, tag string) string {
	for v := 1; v < 12; v++ {
		if c19Tag(s, v) == tag {
			return fmt.Sprint(v)
		}
	}
	return ""
}

func c19Interleave(s c19Sched) []mc.Finding {
	var f []mc.Finding
	bad := func(key, format string, a ...interface{}) {
		f = append(f, mc.Finding{Key: "C19:" + key, Msg: fmt.Sprintf("%+v: ", s) + fmt.Sprintf(format, a...)})
	}
	lifetime := time.Duration(0)
	if s.ExpireBefore >= 0 {
		lifetime = 25 * time.Millisecond // all other steps take microseconds; the expiring step sleeps past it
	}
	etagExec := &webhookExecutorEtag{etagCache: cache.New[eTagKey, *eTagEntry](lifetime, 0)}
	key := etagExec.getKeyFromObject(c19Parent())
	if s.Primed {
		etagExec.etagCache.Set(key, &eTagEntry{Etag: c19Tag(s, 1), Response: []byte(c19Body("1"))})
	}
	version := 1
	decisions := 0
	threads := make([]*c19Thread, s.Threads)
	cur := map[*http.Request]*c19Thread{}
	var curT *c19Thread
	sc := &scriptClient{}
	sc.do = func(r *http.Request) (*http.Response, error) {
		t := curT
		cur[r] = t
		t.inm = r.Header.Get("If-None-Match")
		// phase boundary 1: headers enriched, request "on the wire"
		t.yielded <- "gate"
		<-t.resume
		// server decision (atomic)
		if decisions < len(s.Bumps) && s.Bumps[decisions] {
			version++
		}
		decisions++
		etag := c19Tag(s, version)
		var resp *http.Response
		if t.inm == etag {
			resp = mkResp(304, nil, "")
		} else {
			t.servedV = version
			resp = mkResp(200, map[string]string{"ETag": etag}, c19Body(fmt.Sprint(version)))
		}
		// phase boundary 2: response "on the wire"
		t.yielded <- "gate"
		<-t.resume
		return resp, nil
	}
	ex := newWebhookExecutor(sc, "http://hook.invalid/sync", common.SyncHook, nil, etagExec, time.Now)
	for i := range threads {
		t := &c19Thread{id: i, resume: make(chan struct{}), yielded: make(chan string)}
		threads[i] = t
		go func() {
			<-t.resume
			t.err = ex.Call(&c19Req{c19Parent()}, &t.out)
			t.yielded <- "done"
		}()
	}
	done := make([]bool, s.Threads)
	for step, id := range s.Schedule {
		if step == s.ExpireBefore {
			time.Sleep(40 * time.Millisecond)
		}
		t := threads[id]
		if done[id] {
			bad("schedule", "thread %d scheduled after completion", id)
			return f
		}
		curT = t
		t.resume <- struct{}{}
		if ev := <-t.yielded; ev == "done" {
			done[id] = true
		}
	}
	for i, d := range done {
		if !d {
			bad("schedule", "thread %d did not complete", i)
			return f
		}
	}
	outcome := ""
	for _, t := range threads {
		if t.err != nil {
			outcome += "E"
			// an error is allowed (the caller retries); silent wrong data is not
			continue
		}
		got, _ := t.out.Status["v"].(string)
		want := ""
		if t.servedV > 0 {
			want = fmt.Sprint(t.servedV)
			outcome += "2"
		} else {
			want = c19VersionOf(s, t.inm) // the body cached with exactly the ETag that was sent
			outcome += "3"
		}
		if got != want {
			bad("304-body-of-other-etag", "thread %d sent If-None-Match %q, was answered %s, and used body version %q instead of %q", t.id, t.inm, map[bool]string{true: "200", false: "304"}[t.servedV > 0], got, want)
		}
	}
	c19Outcome = outcome
	// the cache entry must pair an ETag with its own body
	if e, ok := etagExec.etagCache.Get(key); ok {
		if string(e.Response) != c19Body(c19VersionOf(s, e.Etag)) {
			bad("cache-pairing", "cache holds (%q, %s)", e.Etag, string(e.Response))
		}
	}
	return f
}

// schedules enumerates all interleavings of n threads with 3 steps each.
func c19Schedules(n int) [][]int {
	var out [][]int
	left := make([]int, n)
	for i := range left {
		left[i] = 3
	}
	var rec func(cur []int)
	rec = func(cur []int) {
		if len(cur) == 3*n {
			out = append(out, append([]int(nil), cur...))
			return
		}
		for i := 0; i < n; i++ {
			if left[i] > 0 {
				left[i]--
				rec(append(cur, i))
				left[i]++
			}
		}
	}
	rec(nil)
	return out
}

func TestVerifC19(t *testing.T) {
	r := mc.NewReport("C19", "table")
	dims := []int{len(c19Statuses), len(c19ETags), len(c19Retry), len(c19Bodies), 2, 2, len(c19Caches)}
	mc.Product(r, dims, func(idx int, d []int) {
		c := c19Case{Status: c19Statuses[d[0]], ETag: c19ETags[d[1]], Retry: c19Retry[d[2]], Body: c19Bodies[d[3]], Strict: d[4] == 1, Etag: d[5] == 1, Cache: c19Caches[d[6]]}
		if !c.Etag && c.Cache != "empty" {
			return
		}
		if c.Status != 429 && c.Retry != "" && c.Retry != "7" {
			return // Retry-After only matters for 429; keep one non-429 value as a bystander header
		}
		r.Case(c, fmt.Sprint(idx), func() []mc.Finding { return c19Run(c) })
		r.Outcome(c19Outcome)
		if idx%997 == 0 {
			r.Sample(c)
		}
	})
	r.Write()

	r2 := mc.NewReport("C19", "interleavings")
	idx := 0
	maxThreads := 2
	if mc.Thorough() {
		maxThreads = 3
	}
	for n := 2; n <= maxThreads; n++ {
		scheds := c19Schedules(n)
		for _, sch := range scheds {
			for bm := 0; bm < 1<<n; bm++ {
				for primed := 0; primed < 2; primed++ {
					idx++
					if !mc.Mine(idx) {
						continue
					}
					bumps := make([]bool, n)
					for i := range bumps {
						bumps[i] = bm&(1<<i) != 0
					}
					s := c19Sched{Threads: n, Schedule: sch, Bumps: bumps, Primed: primed == 1, ExpireBefore: -1}
					r2.Case(s, fmt.Sprint(idx), func() []mc.Finding { return c19Interleave(s) })
					r2.Outcome(c19Outcome)
					r2.Transitions += len(sch)
					if idx%499 == 0 {
						r2.Sample(s)
					}
					if n == 2 {
						sw := s
						sw.WeakStrong = true
						r2.Case(sw, fmt.Sprintf("%d-weakstrong", idx), func() []mc.Finding { return c19Interleave(sw) })
						r2.Outcome("weak/strong:" + c19Outcome)
						r2.Transitions += len(sch)
					}
					if n == 2 {
						// the same schedule with a cache lifetime: the entries expire before each step in turn
						for eb := 1; eb < len(sch); eb++ {
							se := s
							se.ExpireBefore = eb
							r2.Case(se, fmt.Sprintf("%d-expire%d", idx, eb), func() []mc.Finding { return c19Interleave(se) })
							r2.Outcome("expiry:" + c19Outcome)
							r2.Transitions += len(sch)
						}
					}
				}
			}
		}
	}
	r2.States = r2.Evaluations
	r2.Write()
	_ = reflect.DeepEqual
}
