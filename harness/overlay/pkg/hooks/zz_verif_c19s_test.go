//go:build verif

package hooks

import (
	"fmt"
	"net/http"
	"strings"
	"testing"
	"time"

	"k8s.io/apimachinery/pkg/apis/meta/v1/unstructured"

	"metacontroller/pkg/apis/metacontroller/v1alpha1"
	"metacontroller/pkg/cache"
	"metacontroller/pkg/controller/common"
	"metacontroller/pkg/internal/verif/kit"
	"metacontroller/pkg/internal/verif/mc"
)

// C19, sequence part: every sequence of hook calls up to a bounded length through ONE ETag-enabled executor
// (two parents = two cache keys; answers: 200 with ETag E1/E2 or without, well-formed or with an unknown field,
// 304, 412, an error page, 429), in loose and in strict mode, compared call by call with a reference model of
// the statement: per parent the (ETag, body) pair that last arrived together; If-None-Match is that ETag; a
// 304/412 is an answer only if If-None-Match was sent and then stands for exactly that body; any answer is
// accepted only if its body decodes under the mode.

type c19Ans struct {
	Name   string
	Status int
	ETag   string
	Kind   string // valid | unknown-field | junk | none
}

var c19Alphabet = []c19Ans{
	{"200+E1", 200, "E1", "valid"}, {"200+E2", 200, "E2", "valid"}, {"200", 200, "", "valid"}, {"200+E1+unknown-field", 200, "E1", "unknown-field"},
	{"304", 304, "", "none"}, {"412", 412, "", "none"}, {"412+E2+json-body", 412, "E2", "valid"}, {"503-error-page", 503, "", "junk"}, {"429", 429, "", "none"},
}

type c19Entry struct {
	etag, body, kind string
}

func TestVerifC19Seq(t *testing.T) {
	r := mc.NewReport("C19", "call-sequences")
	defer r.Write()
	depth := 3
	if mc.Thorough() {
		depth = 4
	}
	parents := []*unstructured.Unstructured{{Object: kit.Obj(kit.Thing, "n1", "p")}, {Object: kit.Obj(kit.Thing, "n1", "q")}}
	parents[0].SetUID("uid-p")
	parents[1].SetUID("uid-q")
	nsym := len(c19Alphabet) * len(parents)
	total := 1
	for i := 0; i < depth; i++ {
		total *= nsym
	}
	idx := 0
	for _, strict := range []bool{false, true} {
		for code := 0; code < total; code++ {
			idx++
			if !mc.Mine(idx) {
				continue
			}
			var seq []int
			x := code
			for i := 0; i < depth; i++ {
				seq = append(seq, x%nsym)
				x /= nsym
			}
			var names []string
			for _, s := range seq {
				names = append(names, fmt.Sprintf("%s:%s", []string{"p", "q"}[s/len(c19Alphabet)], c19Alphabet[s%len(c19Alphabet)].Name))
			}
			dev := kit.M{"strict": strict, "calls": names}
			st := strict
			r.Case(dev, fmt.Sprint(idx), func() []mc.Finding {
				var f []mc.Finding
				bad := func(step int, key, format string, a ...interface{}) {
					f = append(f, mc.Finding{Key: "C19:seq:" + key, Msg: fmt.Sprintf("strict=%v %v, call %d: ", st, names, step+1) + fmt.Sprintf(format, a...)})
				}
				etagExec := &webhookExecutorEtag{etagCache: cache.New[eTagKey, *eTagEntry](0, 0)}
				sc := &scriptClient{}
				var mode *v1alpha1.ResponseUnmarshallMode
				if st {
					m := v1alpha1.ResponseUnmarshallModeStrict
					mode = &m
				}
				ex := newWebhookExecutor(sc, "http://hook.invalid/sync", common.SyncHook, mode, etagExec, func() time.Time { return c19Now })
				model := map[int]*c19Entry{}
				for step, s := range seq {
					pi, ans := s/len(c19Alphabet), c19Alphabet[s%len(c19Alphabet)]
					body := ""
					switch ans.Kind {
					case "valid":
						body = c19Body(fmt.Sprintf("call%d", step))
					case "unknown-field":
						body = fmt.Sprintf(`{"status":{"v":"call%d"},"children":[],"bogus":1}`, step)
					case "junk":
						body = "<html>" + strings.Repeat("service unavailable ", 6) + "</html>"
					}
					sentINM := ""
					sc.do = func(rq *http.Request) (*http.Response, error) {
						sentINM = rq.Header.Get("If-None-Match")
						hdr := map[string]string{}
						if ans.ETag != "" {
							hdr["ETag"] = ans.ETag
						}
						if ans.Status == 429 {
							hdr["Retry-After"] = "7"
						}
						return mkResp(ans.Status, hdr, body), nil
					}
					var out c19Resp
					var err error
					if p, stack := mc.Recover(func() { err = ex.Call(&c19Req{parents[pi]}, &out) }); p != nil {
						bad(step, "panic", "panic %v\n%s", p, stack)
						return f
					}
					// --- the model
					wantINM := ""
					if e := model[pi]; e != nil {
						wantINM = e.etag
					}
					if sentINM != wantINM {
						bad(step, "if-none-match", "If-None-Match sent %q, the pair last received for this parent has ETag %q", sentINM, wantINM)
					}
					usedBody, usedKind, isAnswer := body, ans.Kind, ans.Status == 200
					if (ans.Status == 304 || ans.Status == 412) && wantINM != "" {
						usedBody, usedKind, isAnswer = model[pi].body, model[pi].kind, true
					}
					decodes := usedKind == "valid" || (usedKind == "unknown-field" && !st)
					switch {
					case ans.Status == 429:
						if _, ok := err.(*TooManyRequestError); !ok {
							bad(step, "429-type", "429 gave %T %v", err, err)
						}
					case isAnswer && decodes:
						if err != nil {
							bad(step, "rejected-good-answer", "rejected: %v", err)
							break
						}
						want := usedBody[strings.Index(usedBody, `"v":"`)+5:]
						want = want[:strings.Index(want, `"`)]
						if got, _ := out.Status["v"].(string); got != want {
							bad(step, "wrong-body", "decoded status.v=%q, the body that belongs to this answer says %q", got, want)
						}
					default:
						if err == nil {
							bad(step, "accepted-bad-answer", "status %d (If-None-Match %q, body kind %s) accepted: %v", ans.Status, sentINM, usedKind, out.Status)
						}
					}
					if ans.Status == 200 && ans.ETag != "" {
						model[pi] = &c19Entry{ans.ETag, body, ans.Kind}
					}
					// the cache holds, for every parent, exactly the pair of the model
					for qi, par := range parents {
						e, ok := etagExec.etagCache.Get(etagExec.getKeyFromObject(par))
						m := model[qi]
						switch {
						case ok && m == nil:
							bad(step, "cache-pairing", "cache holds (%q, %.40q) for parent %d although no 200 with an ETag ever arrived for it", e.Etag, string(e.Response), qi)
						case !ok && m != nil:
							bad(step, "cache-lost", "the pair (%q, ...) received for parent %d is gone from the cache", m.etag, qi)
						case ok && (e.Etag != m.etag || string(e.Response) != m.body):
							bad(step, "cache-pairing", "cache holds (%q, %.60q) for parent %d, the pair that last arrived together is (%q, %.60q)", e.Etag, string(e.Response), qi, m.etag, m.body)
						}
					}
					if len(f) > 0 {
						return f
					}
				}
				return f
			})
			r.Transitions += depth
		}
	}
	r.States = r.Evaluations
	r.Infof("all %d^%d call sequences x loose/strict", nsym, depth)
}
