//go:build verif

package hooks

import (
	"fmt"
	"net/http"
	"net/http/httptest"
	"testing"
	"time"

	metav1 "k8s.io/apimachinery/pkg/apis/meta/v1"

	"metacontroller/pkg/apis/metacontroller/v1alpha1"
	"metacontroller/pkg/controller/common"
	"metacontroller/pkg/internal/verif/kit"
	"metacontroller/pkg/internal/verif/mc"
)

// C19, timeout part: "a timeout ... is an error". The executor is built the way production builds it
// (NewWebhookExecutor: real http.Client, the metrics instrumentation around it) and called against an
// in-process server that stops talking at every point of an answer: before the status line, after the headers,
// in the middle of the body. With a configured timeout of 200 ms the call must come back with an error; the
// harness waits for it with a generous watchdog (60 s - 300 x the timeout; a liveness bound, never a timing
// assertion) and then releases the server.

func TestVerifC19Timeout(t *testing.T) {
	r := mc.NewReport("C19", "timeouts")
	defer r.Write()
	idx := 0
	for _, stall := range []string{"before-headers", "after-headers", "mid-body", "never-stalls"} {
		for _, etag := range []bool{false, true} {
			for _, strict := range []bool{false, true} {
				idx++
				if !mc.Mine(idx) {
					continue
				}
				dev := kit.M{"stall": stall, "etag": etag, "strict": strict}
				st, et, sr := stall, etag, strict
				r.Case(dev, fmt.Sprint(idx), func() []mc.Finding {
					var f []mc.Finding
					release := make(chan struct{})
					srv := httptest.NewServer(http.HandlerFunc(func(w http.ResponseWriter, rq *http.Request) {
						body := c19Body("new")
						switch st {
						case "before-headers":
							<-release
						case "after-headers":
							w.Header().Set("Content-Length", fmt.Sprint(len(body)))
							w.WriteHeader(200)
							w.(http.Flusher).Flush()
							<-release
						case "mid-body":
							w.Header().Set("Content-Length", fmt.Sprint(len(body)))
							w.WriteHeader(200)
							_, _ = w.Write([]byte(body[:len(body)/2]))
							w.(http.Flusher).Flush()
							<-release
						default:
							_, _ = w.Write([]byte(body))
						}
					}))
					defer srv.Close()
					defer close(release)
					url := srv.URL + "/sync"
					wh := &v1alpha1.Webhook{URL: &url, Timeout: &metav1.Duration{Duration: 200 * time.Millisecond}}
					if et {
						tr := true
						wh.Etag = &v1alpha1.WebhookEtagConfig{Enabled: &tr}
					}
					if sr {
						m := v1alpha1.ResponseUnmarshallModeStrict
						wh.ResponseUnmarshallMode = &m
					}
					ex, err := NewWebhookExecutor(wh, fmt.Sprintf("c19t-%s-%v-%v", st, et, sr), common.CompositeController, common.SyncHook)
					if err != nil {
						return []mc.Finding{{Key: "C19:timeout:setup", Msg: fmt.Sprintf("%v: %v", dev, err)}}
					}
					done := make(chan error, 1)
					go func() {
						var out c19Resp
						done <- ex.Call(&c19Req{c19Parent()}, &out)
					}()
					select {
					case err := <-done:
						if st == "never-stalls" {
							if err != nil {
								f = append(f, mc.Finding{Key: "C19:timeout:good-answer-rejected", Msg: fmt.Sprintf("%v: %v", dev, err)})
							}
						} else if err == nil {
							f = append(f, mc.Finding{Key: "C19:timeout:stalled-answer-accepted", Msg: fmt.Sprintf("%v: the hook stopped talking (%s) and the call reported success", dev, st)})
						}
					case <-time.After(60 * time.Second):
						f = append(f, mc.Finding{Key: "C19:timeout:call-never-returns", Msg: fmt.Sprintf("%v: the hook stopped talking (%s); with a timeout of 200ms the call had not returned after 60s", dev, st)})
					}
					return f
				})
				r.Outcome(stall)
			}
		}
	}
}
